"""Assumed contracts on dependencies (the trusted base E1..E11 of DESIGN.md section 6) as interpreter models."""
import z3

from . import theory as T
from . import tys as TY
from .sv import SV, NONE, OutOfSubset, mk_int, mk_bool, mk_real, mk_str, mk_bytes, BuiltinRef
from .interp import as_int_term, const_int


def ext_attr(I, obj, attr, node):
    name = obj.t
    full = f"{name}.{attr}"
    if name == 'source':
        kind = obj.extra['source_kind']
        if (kind == 'file' and attr in ('read', 'seek')) or (kind == 'socket' and attr == 'recv'):
            return SV('func', BuiltinRef('source.' + attr, obj))
        I.raise_('AttributeError', node)
    return SV('ext', full, extra=obj.extra)


def source_read(I, slf, args, kwargs, node):
    """E1: read(k) / recv(k)"""
    USED.add('E1')
    src = slf.extra
    Tt, R = src['T'].t, src['R'].t
    n = T.blen(Tt)
    if not args or args[0].kind == 'none':
        k = z3.IntVal(-1)
    else:
        k = as_int_term(args[0])
    if I.path.decide(k < 0):
        if src['source_kind'] == 'socket':
            I.raise_('ValueError', node)
        out = T.sl(Tt, R, n)
        src['R'] = mk_int(n)
        return mk_bytes(out)
    if I.path.decide(k == 0):
        return mk_bytes(T.bempty)
    if I.path.decide(R >= n):
        return mk_bytes(T.bempty)          # end of file / peer closed
    m = z3.Int(I.path.fresh_name('m'))
    I.path.assume(z3.And(m >= 1, m <= k, m <= n - R))   # ANY fragmentation: m is universally quantified
    out = T.sl(Tt, R, R + m)
    src['R'] = mk_int(R + m)
    return mk_bytes(out)


def source_seek(I, slf, args, kwargs, node):
    USED.add('E1')
    src = slf.extra
    Tt = src['T'].t
    off = as_int_term(args[0])
    whence = args[1] if len(args) > 1 else mk_int(0)
    if whence.kind == 'ext' and whence.t == 'io.SEEK_END':
        new = T.blen(Tt) + off
    elif whence.kind == 'int' and const_int(whence.t) == 0:
        new = off
    else:
        raise OutOfSubset("seek whence")
    if const_int(off) != 0:
        raise OutOfSubset("seek with non-zero offset")
    src['R'] = mk_int(new)
    return mk_int(new)


def ext_call(I, fsv, args, kwargs, node):
    name = fsv.t
    if name == 'time.time_ns':
        return mk_int(z3.Int(I.path.fresh_name('time_ns')))
    if name == 'struct.unpack':
        return struct_unpack(I, args, node)
    if name.startswith('operator.') and name.split('.')[1] in ('__eq__', '__ne__', '__lt__', '__le__', '__gt__', '__ge__'):
        from .calls import operator_module_call
        return operator_module_call(I, name.split('.')[1], args, node)
    if name in ('logging.getLogger',):
        return SV('ext', 'logger')
    if name == 'datetime.timedelta':
        # E12: timedelta(microseconds=<finite number>) is an opaque value that only gets formatted
        if args or set(kwargs) - {'microseconds', 'seconds', 'milliseconds'}:
            raise OutOfSubset(f"datetime.timedelta with other than keyword durations (line {getattr(node, 'lineno', '?')})")
        USED.add('E12')
        return SV('ext', 'timedelta')
    raise OutOfSubset(f"call of external {name} (line {getattr(node, 'lineno', '?')})")


ieee = z3.Function('ieee', z3.StringSort(), T.Bytes, z3.RealSort())   # E2: struct.unpack(fmt, b)[0]


def struct_unpack(I, args, node):
    fmt, data = args
    b = I.as_bytes(data)
    return SV('tuple', (mk_real(ieee(fmt.t, b)),))


def ext_isinstance(I, x, tname, node):
    short = tname.split('.')[-1]
    kind = (x.extra or {}).get('source_kind')
    if kind is not None:
        m = {'file': 'BufferedIOBase', 'socket': 'socket', 'text': 'TextIOWrapper'}
        return z3.BoolVal(m.get(kind) == short)
    return z3.BoolVal(False)


def ext_getitem(I, obj, key, node):
    raise OutOfSubset(f"subscript on external {obj.t}")


def ext_setitem(I, obj, key, v, node):
    raise OutOfSubset(f"subscript store on external {obj.t}")


def model_open(I, call_node, frame):
    raise OutOfSubset("open()")


def havoc_ghost(I, g):
    """g = '<param>.R': the read offset of a source parameter"""
    name, fld = g.split('.')
    for fr in I._frames_for_ghost:
        v = fr.lookup(name)
        if v is not None and v.kind == 'ext' and v.t == 'source':
            R = z3.Int(I.path.fresh_name(name + '.R'))
            I.path.assume(z3.And(R >= 0, R <= T.blen(v.extra['T'].t)))
            v.extra['R'] = mk_int(R)
            return
        if v is not None:
            return          # not a reader source (e.g. the bytes variant): nothing to havoc
    raise OutOfSubset(f"ghost {g}")


def view_sequence(I, seq, node):
    raise OutOfSubset(f"iteration over {seq.kind}")


def install(reg):
    reg.ext_models.update({'attr': ext_attr, 'call': ext_call, 'isinstance': ext_isinstance, 'getitem': ext_getitem,
                           'setitem': ext_setitem, 'open': model_open, 'havoc_ghost': havoc_ghost,
                           'view_sequence': view_sequence})


USED = set()
TRUSTED = {
    'E1': "E1: source readers (BufferedIOBase.read/seek, socket.recv): the source is a fixed finite byte string T with read offset R; read(k>0)/recv(k>0) return T[R:R+m] for SOME 1<=m<=min(k,len(T)-R) when R<len(T) and b'' iff R==len(T); read(k<0) returns T[R:]; seek(0,END) returns len(T); no exception",
    'E2': "E2: struct.unpack('>e|>f|>d|<e|<f|<d', b)[0] is the IEEE-754 binary16/32/64 value of b in that byte order (uninterpreted function of format and bytes)",
    'E3': "E3: float arithmetic is exact real arithmetic",
    'E4': "E4: codecs (bytes.decode, bytes(str, encoding=)) are uninterpreted functions of their arguments",
    'E12': "E12: time.time_ns() returns some int; datetime.timedelta(microseconds=x) and print(...) of already evaluated strings do not raise",
    'E11': "E11: functools.cached_property returns the first computed value; on immutable bytes that equals recomputation",
}
