"""Assumed contracts on dependencies (the trusted base E1..E11 of DESIGN.md section 6) as interpreter models."""
import z3

from . import theory as T
from . import types as TY
from .sv import SV, NONE, OutOfSubset, mk_int, mk_bool, mk_real, mk_str, mk_bytes, BuiltinRef
from .interp import as_int_term, const_int


def ext_attr(I, obj, attr, node):
    name = obj.t
    full = f"{name}.{attr}"
    if name == 'source' and attr in ('read', 'recv', 'seek'):
        return SV('func', BuiltinRef('source.' + attr, obj))
    return SV('ext', full, extra=obj.extra)


def ext_call(I, fsv, args, kwargs, node):
    name = fsv.t
    if name == 'time.time_ns':
        return mk_int(z3.Int(I.path.fresh_name('time_ns')))
    if name == 'struct.unpack':
        return struct_unpack(I, args, node)
    if name in ('logging.getLogger',):
        return SV('ext', 'logger')
    raise OutOfSubset(f"call of external {name} (line {getattr(node, 'lineno', '?')})")


ieee = z3.Function('ieee', z3.StringSort(), T.Bytes, z3.RealSort())   # E2: struct.unpack(fmt, b)[0]


def struct_unpack(I, args, node):
    fmt, data = args
    b = I.as_bytes(data)
    return SV('tuple', (mk_real(ieee(fmt.t, b)),))


def ext_isinstance(I, x, tname, node):
    short = tname.split('.')[-1]
    kind = (x.extra or {}).get('source_kind')
    if kind is not None:
        m = {'file': 'BufferedIOBase', 'socket': 'socket', 'text': 'TextIOWrapper'}
        return z3.BoolVal(m.get(kind) == short)
    return z3.BoolVal(False)


def ext_getitem(I, obj, key, node):
    raise OutOfSubset(f"subscript on external {obj.t}")


def ext_setitem(I, obj, key, v, node):
    raise OutOfSubset(f"subscript store on external {obj.t}")


def model_open(I, call_node, frame):
    raise OutOfSubset("open()")


def havoc_ghost(I, g):
    raise OutOfSubset(f"ghost {g}")


def view_sequence(I, seq, node):
    raise OutOfSubset(f"iteration over {seq.kind}")


def install(reg):
    reg.ext_models.update({'attr': ext_attr, 'call': ext_call, 'isinstance': ext_isinstance, 'getitem': ext_getitem,
                           'setitem': ext_setitem, 'open': model_open, 'havoc_ghost': havoc_ghost,
                           'view_sequence': view_sequence})


USED = set()
TRUSTED = {
    'E1': "E1: source readers (BufferedIOBase.read/seek, socket.recv): the source is a fixed finite byte string T with read offset R; read(k>0)/recv(k>0) return T[R:R+m] for SOME 1<=m<=min(k,len(T)-R) when R<len(T) and b'' iff R==len(T); read(k<0) returns T[R:]; seek(0,END) returns len(T); no exception",
    'E2': "E2: struct.unpack('>e|>f|>d|<e|<f|<d', b)[0] is the IEEE-754 binary16/32/64 value of b in that byte order (uninterpreted function of format and bytes)",
    'E3': "E3: float arithmetic is exact real arithmetic",
    'E4': "E4: codecs (bytes.decode, bytes(str, encoding=)) are uninterpreted functions of their arguments",
    'E11': "E11: functools.cached_property returns the first computed value; on immutable bytes that equals recomputation",
}
