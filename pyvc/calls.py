"""Calls: special forms, builtin models, constructors, inlining, and dispatch to callee contracts."""
import ast
import z3

from . import theory as T
from . import tys as TY
from .sv import (SV, NONE, NOTIMPL, MObj, Frame, Closure, BoundMethod, BuiltinRef, OutOfSubset, SymRaise, ReturnEx,
                 StaleContract, PathEnd, mk_int, mk_bool, mk_real, mk_str, mk_bytes)
from .interp import is_num, as_int_term, as_real_term, const_int

DROPPED_CALL_PREFIXES = ('logger.', 'logging.')


def eval_call(I, node, frame):
    fn = node.func
    fname = ast.unparse(fn)
    # ---- dropped calls (documented in DESIGN: logging, progress printing) ----------------------------------------
    if fname.startswith(DROPPED_CALL_PREFIXES) and frame.lookup(fname.split('.')[0]) is None:
        for a in node.args:
            I.eval_message(a, frame)
        return NONE
    if fname == 'print' and frame.lookup('print') is None:
        for a in node.args:
            I.eval_message(a, frame)
        return NONE
    if fname == 'warnings.warn' and frame.lookup('warnings') is None:
        for a in node.args:
            I.eval_message(a, frame)
        I.path.warn_log.append((getattr(node, 'lineno', 0), list(I.path.pc)))
        return NONE
    # ---- spec-only forms -------------------------------------------------------------------------------------
    if isinstance(fn, ast.Name) and frame.lookup(fn.id) is None:
        if fn.id == 'old' and I.spec:
            saved = I.in_old
            I.in_old = True
            try:
                r_old = I.eval(node.args[0], frame)
            finally:
                I.in_old = saved
            if r_old.kind in ('mobj', 'odict', 'mdict') and I.old_map is not None:
                # a mutable object has no old VALUE of its own: reads through it outside old() would see the new state
                raise StaleContract(f"old() of a mutable object ({ast.unparse(node)}): put the whole expression that "
                                    f"reads it inside old()")
            return r_old
        if fn.id in ('forall', 'exists') and (I.spec or frame.module == 'ghost'):
            return eval_quant(I, node, frame, fn.id)
        if fn.id == 'implies' and (I.spec or frame.module == 'ghost'):
            a = I.truth(I.eval(node.args[0], frame))
            sa = z3.simplify(a)
            if z3.is_false(sa):
                return mk_bool(True)          # antecedent impossible on this path: the consequent is not evaluated
            # the consequent is evaluated under the antecedent (class narrowing, optional fields, kinds)
            from .interp import push_guard
            push_guard(I.path, a)
            try:
                try:
                    b = I.truth(I.eval(node.args[1], frame))
                except (OutOfSubset, StaleContract, SymRaise, PathEnd):
                    if not I.path._feasible(z3.BoolVal(True)):
                        b = z3.BoolVal(True)     # consequent ill-formed / dead only where the antecedent is impossible
                    else:
                        raise
            finally:
                # remove exactly the antecedent pushed above (forks inside may have appended after it)
                from .interp import pop_guard
                pop_guard(I.path, a)
            return mk_bool(z3.Implies(a, b))
        if fn.id == 'ite' and I.spec:
            c = I.truth(I.eval(node.args[0], frame))
            return I.ite_sv(c, I.eval(node.args[1], frame), I.eval(node.args[2], frame), node)
        if fn.id == 'use' and frame.module == 'ghost':
            # use(<lemma schema>(args)): instantiate a named lemma schema (specs/oracles.py @axiom) at these terms
            a0 = node.args[0]
            if not (isinstance(a0, ast.Call) and isinstance(a0.func, ast.Name)
                    and a0.func.id in I.registry.axiom_schemas):
                I.oos(node, "use() takes an instance of a registered lemma schema")
            saved = I.spec
            I.spec = True
            try:
                t = I.truth(I.eval(a0, frame))
            finally:
                I.spec = saved
            I.path.hints.append(t)
            return mk_bool(True)
        if fn.id == 'is_none' and I.spec:
            return mk_bool(spec_is_none(I, node.args[0], frame))
        if fn.id == 'super':
            if frame.cls is None or (frame.lookup('self') is None and frame.lookup('cls') is None):
                I.oos(node, "super() outside a method")
            slf = frame.lookup('self') or frame.lookup('cls')
            return SV('super', (frame.cls, slf))
    fsv = I.eval(fn, frame)
    args = []
    for a in node.args:
        if isinstance(a, ast.Starred):
            seq = I.eval(a.value, frame)
            if seq.kind == 'genexp':
                from .loops import eval_genexp_list
                seq = eval_genexp_list(I, seq)
            if seq.kind in ('clist', 'tuple'):
                args.extend(seq.t)
            else:
                I.oos(node, "star-args over a non-concrete sequence")
        else:
            args.append(I.eval(a, frame))
    kwargs = {}
    for kw in node.keywords:
        if kw.arg is None:
            d = I.eval(kw.value, frame)
            if d.kind == 'cdict':
                for k, v in d.t:
                    ks = z3.simplify(k.t)
                    if not z3.is_string_value(ks):
                        I.oos(node, "**kwargs with symbolic key")
                    kwargs[ks.as_string()] = v
            else:
                I.oos(node, "**kwargs")
        else:
            kwargs[kw.arg] = I.eval(kw.value, frame)
    return call_callable(I, fsv, args, kwargs, node)


def eval_quant(I, node, frame, which):
    lam = node.args[0]
    if not isinstance(lam, ast.Lambda):
        I.oos(node, "forall/exists needs a lambda")
    names = [a.arg for a in lam.args.args]
    bvars = [z3.Int(I.path.fresh_name(n + '!b')) for n in names]
    f2 = Frame(parent=frame)
    for n, b in zip(names, bvars):
        f2.vars[n] = mk_int(b)
    guards = []
    if len(node.args) >= 3:
        lo = as_int_term(I.eval(node.args[1], frame))
        hi = as_int_term(I.eval(node.args[2], frame))
        guards = [lo <= bvars[0], bvars[0] < hi]
    saved_spec = I.spec
    saved_q = getattr(I, 'in_quant', False)
    I.spec = True          # quantifier bodies are always spec expressions (total, no forking)
    I.in_quant = True
    try:
        body = I.truth(I.eval(lam.body, f2))
    finally:
        I.spec = saved_spec
        I.in_quant = saved_q
    pats = None
    for kw in node.keywords:
        if kw.arg == 'pattern':
            pl = kw.value
            if isinstance(pl, ast.Lambda):
                pats = [I.eval(pl.body, f2).t]
    if which == 'forall':
        q = z3.ForAll(bvars, z3.Implies(z3.And(*guards), body) if guards else body, patterns=pats or [])
    else:
        q = z3.Exists(bvars, z3.And(*(guards + [body])), patterns=pats or [])
    return mk_bool(q)


def call_callable(I, fsv, args, kwargs, node):
    k = fsv.kind
    if k == 'func':
        f = fsv.t
        if isinstance(f, BoundMethod):
            clo, slf = f.func, f.self_sv
            con = I.registry.contract_for(clo.qualname)
            if con is not None and not I.registry.is_self_inline(I, clo.qualname):
                from .contract import apply_contract
                return apply_contract(I, con, [slf] + list(args), kwargs, node, clo=clo)
            return I.call_closure(clo, args, kwargs, node, self_sv=slf)
        if isinstance(f, Closure):
            con = I.registry.contract_for(f.qualname)
            if con is not None and not I.registry.is_self_inline(I, f.qualname):
                from .contract import apply_contract
                return apply_contract(I, con, list(args), kwargs, node, clo=f)
            return I.call_closure(f, args, kwargs, node)
        if isinstance(f, BuiltinRef):
            if f.name.startswith('contractfunc:'):
                from .contract import apply_contract
                con = I.registry.contract_for(f.name.split(':', 1)[1])
                return apply_contract(I, con, list(args), kwargs, node, func_sv=fsv)
            return call_builtin(I, f, args, kwargs, node)
    if k == 'cls':
        return construct(I, fsv.t, args, kwargs, node)
    if k == 'ext':
        return I.registry.ext_call(I, fsv, args, kwargs, node)
    if k == 'none':
        I.raise_('TypeError', node)
    if k in ('int', 'bool', 'real', 'bytes', 'str', 'notimpl'):
        I.raise_('TypeError', node)
    I.oos(node, f"call of {k}")


def spec_is_none(I, expr, frame):
    """is_none(<expr>) inside a contract clause: optional record fields are read through their isnone predicate"""
    if isinstance(expr, ast.Attribute):
        base = I.eval(expr.value, frame)
        if base.kind == 'rec':
            from .objects import isnone_fn
            classes = base.extra['classes']
            decls = {I.registry.field_decl(c, expr.attr) for c in classes}
            if len(decls - {None}) == 1 and len(decls) > 1:
                # declared by one class of the union: its (total) isnone predicate, as for plain field reads in specs
                decls = decls - {None}
            if len(decls) == 1 and None not in decls:
                dcls, fty = next(iter(decls))
                if isinstance(fty, tuple) and fty[0] == 'opt':
                    return isnone_fn(dcls, expr.attr)(base.t)
                return z3.BoolVal(fty == 'none')
    v = I.eval(expr, frame)
    return z3.BoolVal(v.kind == 'none')


def method_of_super(I, sup, name, node):
    cls, slf = sup.t
    if name == '__new__' and slf.kind == 'cls':
        # <builtin>.__new__(cls, value) for the value classes (E10: CPython object model)
        ci = I.world.find_class(slf.t)
        bb = I.world.builtin_base(ci) if ci else None
        if bb is not None:
            return SV('func', BuiltinRef('builtin_new:' + bb, slf))
    found = I.world.find_method(I.world.find_class(slf.cls) if slf.kind in ('mobj', 'rec') and slf.cls else cls,
                                name, after=cls)
    if found is None and name == '__init__' and slf.kind == 'mobj':
        ci = I.world.find_class(slf.cls)
        if ci is not None and I.world.builtin_base(ci) == 'dict':
            return SV('func', BuiltinRef('dict.__init__', slf))      # dict.__init__() with no items: nothing to add
    if found is None:
        return None
    dc, fnode = found
    clo = Closure(fnode, I.registry.global_frame(I, dc.module), f"{dc.qual}.{name}", dc.module, dc)
    return SV('func', BoundMethod(clo, slf))


DUNDER_OPS = {'__eq__': ast.Eq, '__ne__': ast.NotEq, '__lt__': ast.Lt, '__le__': ast.LtE, '__gt__': ast.Gt, '__ge__': ast.GtE}


def apply_dunder(I, name, a, b, node):
    """a.__op__(b) for built-in values (S10): the comparison when the left type implements it for the right type,
    else the NotImplemented singleton (int.__lt__(1, 2.0), str.__eq__('a', 1), ...)"""
    from .ops import compare
    ka, kb = a.kind, b.kind
    num_a, num_b = ka in ('int', 'bool'), kb in ('int', 'bool')
    ok = (num_a and num_b) or (ka == 'real' and (kb == 'real' or num_b)) or (ka == 'str' and kb == 'str') or \
        (ka == 'bytes' and I.is_byteslike(b))
    if not ok:
        return NOTIMPL
    return compare(I, DUNDER_OPS[name](), a, b, node)


def apply_dunder_symbolic(I, obj, name, args, node):
    """getattr(x, name)(y) / getattr(operator, name)(x, y) with a symbolic comparison-dunder name: the result is the
    ite chain over the six names; any other name raises AttributeError (one decision)"""
    from .ops import compare
    names = list(DUNDER_OPS)
    valid = z3.Or(*[name.t == z3.StringVal(n) for n in names])
    if not I.spec and not I.path.decide(valid):
        I.raise_('AttributeError', node)
    if obj.kind == 'ext':
        a, b = args
        via_operator_module = True
    else:
        a, b = obj, args[0]
        via_operator_module = False
    if not via_operator_module:
        probe = apply_dunder(I, '__eq__', a, b, node)
        if probe.kind == 'notimpl':
            return NOTIMPL
    results = [compare(I, DUNDER_OPS[n](), a, b, node) for n in names]
    t = results[-1].t
    for n, r in reversed(list(zip(names, results))[:-1]):
        t = z3.If(name.t == z3.StringVal(n), r.t, t)
    return mk_bool(t)


def operator_module_call(I, name, args, node):
    """operator.__lt__(a, b) etc.: the ordinary Python operator (reflected methods included)"""
    from .ops import compare
    a, b = args
    return compare(I, DUNDER_OPS[name](), a, b, node)


# ---------------------------------------------------------------------------------------------------------------------
# constructors
# ---------------------------------------------------------------------------------------------------------------------

def construct(I, cname, args, kwargs, node):
    short = cname.split('.')[-1]
    if short in I.world.exc_bases:
        return SV('exc', (short, {k: v for k, v in kwargs.items()}))
    if short in ('int', 'float', 'bool', 'str', 'bytes', 'list', 'tuple', 'dict', 'type', 'set'):
        return call_builtin(I, BuiltinRef(short), args, kwargs, node)
    if short in TY.PVAL_KINDS:
        return make_param_value(I, short, args, kwargs, node)
    ci = I.world.find_class(cname)
    if ci is None:
        I.oos(node, f"constructor of unknown class {cname}")
    bb = I.world.builtin_base(ci)
    if short == 'RawPacketData' or (bb == 'bytes' and 'pos' in {a for c in I.world.mro(ci) for a in c.attrs}):
        if len(args) != 1 or kwargs:
            I.oos(node, "RawPacketData(...) arguments")
        b = I.as_bytes(args[0]) if I.is_byteslike(args[0]) else None
        if b is None:
            I.raise_('TypeError', node)
        m = MObj(ci.name)
        m.fields['__bytes__'] = mk_bytes(b)
        # class-level `pos = 0` is read through the MRO until shadowed on the instance (S7)
        ca = I.world.find_class_attr(ci, 'pos')
        if ca is not None:
            m.fields['pos'] = I.eval(ca[1], I.registry.global_frame(I, ca[0].module))
        return SV('mobj', m, cls=ci.name)
    con = I.registry.contract_for(f"{ci.qual}.__init__")
    if con is not None and con.constructs:
        from .contract import apply_contract
        return apply_contract(I, con, [None] + list(args), kwargs, node, constructing=ci)
    # generic: run __init__ (inlined) on a fresh mutable object
    m = MObj(ci.name)
    slf = SV('mobj', m, cls=ci.name)
    if bb == 'dict':
        from .objects import fresh_odict
        lt = TY.list_theory(z3.StringSort())
        m.fields['__items__'] = SV('odict', {'has': z3.K(z3.StringSort(), z3.BoolVal(False)),
                                             'val': z3.Array(I.path.fresh_name('emptyval'), z3.StringSort(), TY.PVal),
                                             'keys': lt.lempty})
    found = I.world.find_method(ci, '__init__')
    if found is not None:
        dc, fn = found
        clo = Closure(fn, I.registry.global_frame(I, dc.module), f"{dc.qual}.__init__", dc.module, dc)
        I.call_closure(clo, args, kwargs, node, self_sv=slf)
    elif args or kwargs:
        if I.registry.is_namedtuple(short):
            pass
        else:
            I.raise_('TypeError', node)
    return slf


def make_param_value(I, cname, args, kwargs, node):
    """Construction of a value class.  Call sites use exactly the postcondition of the contract on
    common._Parameter.__new__ (proved on the real code under C20): the built-in value of `value`, and
    raw_value = value if raw_value is None else raw_value."""
    con = I.registry.contract_for('common._Parameter.__new__')
    if con is None:
        I.oos(node, "no contract for common._Parameter.__new__")
    allargs = list(args)
    val = allargs[0] if allargs else kwargs.get('value')
    raw = allargs[1] if len(allargs) > 1 else kwargs.get('raw_value', NONE)
    if val is None or len(allargs) > 2:
        I.raise_('TypeError', node)
    res = build_param(I, cname, val, None, node)
    res.extra['raw'] = SV(res.kind, res.t) if raw.kind == 'none' else raw
    if raw.kind == 'none':
        # raw_value defaults to the constructor argument itself
        res.extra['raw'] = val if val.kind in ('int', 'bool', 'real', 'str', 'bytes') else SV(res.kind, res.t)
    return res


def build_param(I, cname, val, raw, node):
    base = TY.PVAL_KINDS[cname][0]
    v = coerce_base(I, base, val, node)
    return SV(v.kind, v.t, cls=cname, extra={'raw': raw})


def coerce_base(I, base, val, node):
    """The builtin constructor int(x) / float(x) / str(x) / bytes(x) applied by <builtin>.__new__(cls, value)."""
    if base == 'int':
        return call_builtin(I, BuiltinRef('int'), [val], {}, node)
    if base == 'real':
        return call_builtin(I, BuiltinRef('float'), [val], {}, node)
    if base == 'str':
        return call_builtin(I, BuiltinRef('str'), [val], {}, node)
    if base == 'bytes':
        return call_builtin(I, BuiltinRef('bytes'), [val], {}, node)
    if base == 'bool':
        # BoolParameter is an int subclass: int.__new__(cls, value)
        r = call_builtin(I, BuiltinRef('int'), [val], {}, node)
        return mk_bool(r.t != 0)
    I.oos(node, f"coerce to {base}")


# ---------------------------------------------------------------------------------------------------------------------
# builtin models
# ---------------------------------------------------------------------------------------------------------------------

str2int = z3.Function('str2int', z3.StringSort(), z3.IntSort())
str_is_int = z3.Function('str_is_int', z3.StringSort(), z3.BoolSort())
str2real = z3.Function('str2real', z3.StringSort(), z3.RealSort())
str_is_real = z3.Function('str_is_real', z3.StringSort(), z3.BoolSort())
int2str = z3.Function('int2str', z3.IntSort(), z3.StringSort())
real2str = z3.Function('real2str', z3.RealSort(), z3.StringSort())
decode_fn = z3.Function('decode', T.Bytes, z3.StringSort(), z3.StringSort())
decodable = z3.Function('decodable', T.Bytes, z3.StringSort(), z3.BoolSort())
encode_fn = z3.Function('encode', z3.StringSort(), z3.StringSort(), T.Bytes)
str_lower = z3.Function('str_lower', z3.StringSort(), z3.StringSort())
def real_is_int(t):
    """float.is_integer() over the reals: the SMT-LIB is_int predicate"""
    return z3.IsInt(t)


def literal_str(sv):
    if sv.kind != 'str':
        return None
    t = z3.simplify(sv.t)
    if z3.is_string_value(t):
        return t.as_string()
    return None


ALLOWED_KW = {'int.from_bytes': {'byteorder'}, 'int.to_bytes': {'length', 'byteorder'}, 'bytes': {'encoding'},
              'dict.get': set()}


def call_builtin(I, f, args, kwargs, node):
    name = f.name
    if kwargs and not name.startswith(('spec:', 'uninterp:', 'axiom:', 'contractfunc:')):
        extra = set(kwargs) - ALLOWED_KW.get(name, set())
        if extra:
            I.oos(node, f"builtin {name} called with unmodelled keyword(s) {sorted(extra)}")
    slf = f.self_sv
    if name.startswith('spec:'):
        from .specprims import call_spec
        return call_spec(I, name[5:], args, kwargs, node)
    if name.startswith('uninterp:'):
        fn, sig = I.registry.uninterp_fn(name[9:])
        ts = I.registry.uninterp_args(I, sig, args)
        from .objects import wrap_term
        return wrap_term(I, sig[-1], fn(*ts))
    if name.startswith('dunder:'):
        return apply_dunder(I, name[7:], slf, args[0], node)
    if name == 'dunder_sym':
        return apply_dunder_symbolic(I, slf.t[0], slf.t[1], args, node)
    if name.startswith('builtin_new:'):
        base = {'int': 'int', 'float': 'real', 'str': 'str', 'bytes': 'bytes'}[name.split(':')[1]]
        cls_sv, val = args[0], args[1]
        v = coerce_base(I, base, val, node)
        cname = cls_sv.t.split('.')[-1]
        if cname == 'BoolParameter':
            pass
        return SV('valobj', {'base': v, 'cls': cname, 'attrs': {}})
    if name.startswith('axiom:'):
        st = I.registry.axiom_schemas[name[6:]]
        clo = Closure(st, Frame(module='__spec__'), 'spec.' + st.name, '__spec__')
        return I.call_closure(clo, args, kwargs, node)
    h = BUILTINS.get(name)
    if h is None:
        I.oos(node, f"builtin {name}")
    return h(I, slf, args, kwargs, node)


def b_len(I, slf, args, kw, node):
    (x,) = args
    if I.is_byteslike(x):
        return mk_int(T.blen(I.as_bytes(x)))
    if x.kind in ('clist', 'tuple'):
        return mk_int(len(x.t))
    if x.kind == 'cdict':
        return mk_int(len(x.t))
    if x.kind == 'slist':
        lt = TY.list_theory(TY.smt_sort(x.extra['elem']))
        return mk_int(lt.llen(x.t))
    if x.kind == 'str':
        return mk_int(z3.Length(x.t))
    from .objects import odict_of, odict_len
    if odict_of(I, x) is not None:
        return mk_int(odict_len(I, x))
    if not I.spec and x.kind in ('int', 'bool', 'real', 'none'):
        I.raise_('TypeError', node)
    I.oos(node, f"len of {x.kind}")


def b_isinstance(I, slf, args, kw, node):
    x, c = args
    targets = list(c.t) if c.kind == 'tuple' else [c]
    res = []
    for t in targets:
        res.append(isinstance_term(I, x, t, node))
    return mk_bool(z3.Or(*res) if len(res) > 1 else res[0])


def isinstance_term(I, x, t, node):
    tname = t.t if t.kind in ('cls', 'ext') else None
    if tname is None:
        I.oos(node, "isinstance target")
    short = tname.split('.')[-1]
    k = x.kind
    if k == 'ext':
        return I.registry.ext_isinstance(I, x, tname, node)
    if short == 'bytes':
        return z3.BoolVal(I.is_byteslike(x))
    if short == 'int':
        return z3.BoolVal(k in ('int', 'bool'))
    if short == 'float':
        return z3.BoolVal(k == 'real')
    if short == 'str':
        return z3.BoolVal(k == 'str')
    if short == 'bool':
        return z3.BoolVal(k == 'bool' and x.cls is None)
    if short in ('BufferedIOBase', 'socket', 'TextIOWrapper'):
        return z3.BoolVal(False)
    if k in ('mobj', 'rec', 'tuple') and (x.cls or (x.extra and x.extra.get('classes'))):
        classes = [x.cls] if x.cls else x.extra['classes']
        conds = []
        for cn in classes:
            ci = I.world.find_class(cn)
            yes = (cn == short) or (ci is not None and I.world.class_is_subclass(ci, short))
            if k == 'rec' and len(classes) > 1:
                conds.append(z3.And(TY.cls_of(x.t) == TY.class_id(cn), z3.BoolVal(yes)))
            else:
                conds.append(z3.BoolVal(yes))
        return z3.simplify(z3.Or(*conds)) if len(conds) > 1 else conds[0]
    if x.cls and x.cls in TY.PVAL_KINDS:
        return z3.BoolVal(x.cls == short)
    if k in ('int', 'bool', 'real', 'str', 'bytes', 'none', 'clist', 'cdict', 'func'):
        return z3.BoolVal(False)
    I.oos(node, f"isinstance({k}, {tname})")


def b_int(I, slf, args, kw, node):
    if not args:
        return mk_int(0)
    x = args[0]
    if len(args) > 1 or kw:
        I.oos(node, "int() with base")
    if x.kind == 'int':
        return mk_int(x.t)
    if x.kind == 'bool':
        return mk_int(as_int_term(x))
    if x.kind == 'real':
        from .ops import int_valued
        iv = int_valued(x.t)
        if iv is not None:
            return mk_int(iv)
        # truncation toward zero
        fl = z3.ToInt(x.t)
        return mk_int(z3.If(x.t >= 0, fl, z3.If(z3.ToReal(fl) == x.t, fl, fl + 1)))
    if x.kind == 'str':
        if not I.spec and not I.path.decide(str_is_int(x.t)):
            I.raise_('ValueError', node)
        return mk_int(str2int(x.t))
    if I.is_byteslike(x):
        I.oos(node, "int(bytes)")
    if x.kind == 'none':
        I.raise_('TypeError', node)
    I.oos(node, f"int({x.kind})")


def b_float(I, slf, args, kw, node):
    if not args:
        return mk_real(0)
    x = args[0]
    if x.kind == 'real':
        return mk_real(x.t)
    if x.kind in ('int', 'bool'):
        return mk_real(z3.ToReal(as_int_term(x)))
    if x.kind == 'str':
        if not I.spec and not I.path.decide(str_is_real(x.t)):
            I.raise_('ValueError', node)
        return mk_real(str2real(x.t))
    if x.kind in ('none', 'bytes'):
        I.raise_('TypeError' if x.kind == 'none' else 'ValueError', node)
    I.oos(node, f"float({x.kind})")


def b_bool(I, slf, args, kw, node):
    if not args:
        return mk_bool(False)
    return mk_bool(I.truth(args[0], node))


def b_str(I, slf, args, kw, node):
    if not args:
        return mk_str('')
    x = args[0]
    if x.kind == 'str':
        return mk_str(x.t)
    if x.kind == 'bool' and x.cls is None:
        return mk_str(z3.If(x.t, z3.StringVal('True'), z3.StringVal('False')))
    if x.kind == 'int':
        return mk_str(int2str(x.t))
    if x.kind == 'real':
        return mk_str(real2str(x.t))
    return mk_str(z3.String(I.path.fresh_name('str')))


def b_bytes(I, slf, args, kw, node):
    if not args:
        return mk_bytes(T.bempty)
    x = args[0]
    if I.is_byteslike(x):
        return mk_bytes(I.as_bytes(x))
    if x.kind == 'str':
        enc = kw.get('encoding') or (args[1] if len(args) > 1 else None)
        if enc is None:
            I.raise_('TypeError', node)
        return mk_bytes(encode_fn(x.t, enc.t))
    I.oos(node, f"bytes({x.kind})")


def b_type(I, slf, args, kw, node):
    (x,) = args
    if x.cls and x.cls in TY.PVAL_KINDS:
        return SV('cls', 'common.' + x.cls)
    if x.kind in ('mobj', 'rec') and x.cls:
        ci = I.world.find_class(x.cls)
        return SV('cls', ci.qual if ci else x.cls)
    m = {'int': 'int', 'bool': 'bool', 'real': 'float', 'str': 'str', 'bytes': 'bytes', 'none': 'NoneType'}
    if x.kind in m:
        return SV('cls', m[x.kind])
    I.oos(node, f"type({x.kind})")


def b_from_bytes(I, slf, args, kw, node):
    allargs = list(args)
    if slf is not None:
        allargs = [slf] + allargs
    data = allargs[0]
    order = kw.get('byteorder') or (allargs[1] if len(allargs) > 1 else None)
    if order is None:
        order = mk_str('big')
    o = literal_str(order)
    b = I.as_bytes(data)
    if o == 'big':
        return mk_int(T.be(b))
    if o == 'little':
        return mk_int(T.le(b))
    I.oos(node, "from_bytes byteorder")


def b_to_bytes(I, slf, args, kw, node):
    allargs = list(args)
    if slf is not None:
        allargs = [slf] + allargs
    v = as_int_term(allargs[0])
    length = kw.get('length') or (allargs[1] if len(allargs) > 1 else mk_int(1))
    order = kw.get('byteorder') or (allargs[2] if len(allargs) > 2 else mk_str('big'))
    if not is_num(length):
        I.raise_('TypeError', node)
    if length.kind == 'real':
        I.raise_('TypeError', node)
    n = as_int_term(length)
    o = literal_str(order)
    if not I.spec:
        if I.path.decide(n < 0):
            I.raise_('ValueError', node)
        if I.path.decide(z3.Or(v < 0, v >= T.pow2(8 * n))):
            I.raise_('OverflowError', node)
    if o == 'big':
        return mk_bytes(T.tb(v, n))
    if o == 'little':
        return mk_bytes(T.tl(v, n))
    I.oos(node, "to_bytes byteorder")


def b_getattr(I, slf, args, kw, node):
    obj, name = args[0], args[1]
    s = literal_str(name)
    if s is None:
        # getattr(x, <symbolic name>): supported for the comparison dunders, resolved without forking
        if name.kind == 'str' and (obj.kind in ('int', 'bool', 'real', 'str', 'bytes') or
                                   (obj.kind == 'ext' and obj.t == 'operator')):
            return SV('func', BuiltinRef('dunder_sym', SV('tuple', (obj, name))))
        I.oos(node, "getattr with a symbolic attribute name")
    try:
        return I.get_attr(obj, s, node)
    except SymRaise as e:
        if e.exc_cls == 'AttributeError' and len(args) > 2:
            return args[2]
        raise


def b_min(I, slf, args, kw, node):
    return minmax(I, args, kw, node, True)


def b_max(I, slf, args, kw, node):
    return minmax(I, args, kw, node, False)


def minmax(I, args, kw, node, is_min):
    if len(args) == 1:
        seq = args[0]
        if seq.kind == 'genexp':
            from .loops import eval_genexp_list
            seq = eval_genexp_list(I, seq)
        if seq.kind in ('clist', 'tuple'):
            items = list(seq.t)
        elif seq.kind == 'slist':
            return I.registry.slist_minmax(I, seq, is_min, node)
        else:
            I.oos(node, "min/max of non-sequence")
    else:
        items = list(args)
    if not items:
        I.raise_('ValueError', node)
    cur = items[0]
    for it in items[1:]:
        from .ops import compare
        c = compare(I, ast.Lt() if is_min else ast.Gt(), it, cur, node)
        cur = I.ite_sv(c.t, it, cur, node)
    return cur


def b_range(I, slf, args, kw, node):
    vals = [as_int_term(a) for a in args]
    if len(vals) == 1:
        lo, hi = z3.IntVal(0), vals[0]
    elif len(vals) == 2:
        lo, hi = vals
    else:
        lo, hi, step = vals
        if const_int(step) != 1:
            if I.path.decide(step == 0):
                I.raise_('ValueError', node)        # range() arg 3 must not be zero
            from .theory import axiom_instances_for
            for inst in axiom_instances_for(step):
                I.path.assume(inst)
            if not I.path.decide(step > 0):
                I.oos(node, "range with a negative step")
            # members: lo <= x < hi with (x - lo) % step == 0; only next(<generator expression>, default) consumes it
            return SV('steprange', (lo, hi, step))
    clo, chi = const_int(lo), const_int(hi)
    if clo is not None and chi is not None and chi - clo <= 64:
        return SV('clist', [mk_int(i) for i in range(clo, chi)])
    return SV('range', (lo, hi))


def b_next(I, slf, args, kw, node):
    """next((elt for x in range(lo, hi, step) if cond), default): the element for the FIRST member of the range that
    satisfies the (pure) condition, or the default when none does"""
    from .loops import PureMode, _single_gen
    if len(args) != 2 or kw or args[0].kind != 'genexp':
        I.oos(node, "next(...) other than next(<generator expression>, default)")
    gnode, frame = args[0].t
    gen = _single_gen(I, gnode)
    seq = I.eval(gen.iter, frame)
    if seq.kind == 'steprange':
        lo, hi, step = seq.t
    elif seq.kind == 'range':
        (lo, hi), step = seq.t, z3.IntVal(1)
    else:
        I.oos(node, f"next over a generator expression on {seq.kind}")
    if not isinstance(gen.target, ast.Name):
        I.oos(node, "next: comprehension target")

    def member(x):
        off = x - lo if const_int(lo) != 0 else x
        return z3.And(lo <= x, x < hi, off % step == 0) if const_int(step) != 1 else z3.And(lo <= x, x < hi)
    j0 = z3.Int(I.path.fresh_name('j!n'))
    f2 = Frame(parent=frame)
    f2.vars[gen.target.id] = mk_int(j0)
    guard = member(j0)
    I.path.pc.append(guard)
    try:
        with PureMode(I, node):
            conds = []
            for c in gen.ifs:
                v = I.eval(c, f2)
                conds.append(I.truth(v, c))
            elt = I.eval(gnode.elt, f2)
    finally:
        idx = max(i for i, c in enumerate(I.path.pc) if c is guard)
        del I.path.pc[idx]
    if elt.kind != 'int':
        I.oos(node, f"next: element of kind {elt.kind}")
    cond0 = z3.And(*conds) if conds else z3.BoolVal(True)
    jb = z3.Int(I.path.fresh_name('j!b'))

    def at(term, x):
        return z3.substitute(term, (j0, x))
    found = z3.Bool(I.path.fresh_name('next_found'))
    if I.path.decide(found):
        r = z3.Int(I.path.fresh_name('next_at'))
        I.path.assume(z3.And(member(r), at(cond0, r)))
        I.path.assume(z3.ForAll([jb], z3.Implies(z3.And(member(jb), jb < r), z3.Not(at(cond0, jb)))))
        return mk_int(at(elt.t, r))
    I.path.assume(z3.ForAll([jb], z3.Implies(member(jb), z3.Not(at(cond0, jb)))))
    return args[1]


def b_dict_init(I, slf, args, kw, node):
    if args or kw:
        I.oos(node, "dict.__init__ with initial items")
    return NONE


def b_list(I, slf, args, kw, node):
    if not args:
        return SV('clist', [])
    x = args[0]
    if x.kind == 'genexp':
        from .loops import eval_genexp_list
        return eval_genexp_list(I, x)
    if x.kind in ('clist', 'tuple'):
        return SV('clist', list(x.t))
    if x.kind == 'gen':
        return x.t
    if x.kind in ('slist', 'items_view'):
        return x
    I.oos(node, f"list({x.kind})")


def b_tuple(I, slf, args, kw, node):
    r = b_list(I, slf, args, kw, node)
    if r.kind == 'clist':
        return SV('tuple', tuple(r.t))
    return r


def b_all(I, slf, args, kw, node):
    from .loops import eval_all_any
    return eval_all_any(I, args[0], True, node)


def b_any(I, slf, args, kw, node):
    from .loops import eval_all_any
    return eval_all_any(I, args[0], False, node)


def b_sum(I, slf, args, kw, node):
    from .loops import eval_sum
    return eval_sum(I, args[0], node)


def b_abs(I, slf, args, kw, node):
    (x,) = args
    if x.kind == 'real':
        return mk_real(z3.If(x.t >= 0, x.t, -x.t))
    t = as_int_term(x)
    return mk_int(z3.If(t >= 0, t, -t))


def b_is_integer(I, slf, args, kw, node):
    from .ops import int_valued
    if int_valued(slf.t) is not None:
        return mk_bool(True)
    return mk_bool(real_is_int(slf.t))


def b_decode(I, slf, args, kw, node):
    enc = args[0] if args else mk_str('utf-8')
    b = I.as_bytes(slf)
    if not I.spec and not I.path.decide(decodable(b, enc.t)):
        I.raise_('UnicodeDecodeError', node)
    return mk_str(decode_fn(b, enc.t))


def b_bytes_index(I, slf, args, kw, node):
    b = I.as_bytes(slf)
    sub = I.as_bytes(args[0])
    if len(args) > 1:
        I.oos(node, "bytes.index with start")
    r = T.bfind(b, sub)
    if not I.spec and I.path.decide(r < 0):
        I.raise_('ValueError', node)
    return mk_int(r)


def b_hex(I, slf, args, kw, node):
    hexf = z3.Function('hexstr', T.Bytes, z3.StringSort())
    return mk_str(hexf(I.as_bytes(slf)))


def b_lower(I, slf, args, kw, node):
    s = literal_str(slf)
    if s is not None:
        return mk_str(s.lower())
    # str(bool).lower()
    t = slf.t
    return mk_str(str_lower(t))


def b_startswith(I, slf, args, kw, node):
    return mk_bool(z3.PrefixOf(args[0].t, slf.t))


def b_endswith(I, slf, args, kw, node):
    return mk_bool(z3.SuffixOf(args[0].t, slf.t))


def b_list_append(I, slf, args, kw, node):
    slf.t.append(args[0])
    return NONE


def b_list_index(I, slf, args, kw, node):
    from .ops import eq_terms
    for i, it in enumerate(slf.t):
        e = eq_terms(I, it, args[0], node)
        if I.path.decide(e):
            return mk_int(i)
    I.raise_('ValueError', node)


def b_slist_append(I, slf, args, kw, node):
    """list.append on a list that a loop specification turned symbolic: in-place update of the shared value"""
    lt = TY.list_theory(TY.smt_sort(slf.extra['elem']))
    from .objects import elem_term
    v = args[0]
    slf.t = lt.lapp(slf.t, elem_term(I, slf.extra['elem'], v, node))
    back = slf.extra.get('backref')
    if back is not None:
        d, kt = back
        d.t = {'has': d.t['has'], 'val': z3.Store(d.t['val'], kt, slf.t)}
    return NONE


def b_mdict_get(I, slf, args, kw, node):
    """d.get(key, default) on a local dict with symbolic keys: the stored value when the key is present"""
    from .objects import mdict_key, wrap_term, as_slist
    kt = mdict_key(I, slf, args[0], node)
    if len(args) < 2:
        I.oos(node, "dict.get without a default")
    ety = slf.extra['elem']
    if not (isinstance(ety, tuple) and ety[0] == 'list'):
        I.oos(node, "dict.get on a local dict of non-list values")
    dflt = as_slist(I, args[1], ety[1], node)
    return SV('slist', z3.If(z3.Select(slf.t['has'], kt), z3.Select(slf.t['val'], kt), dflt.t), extra={'elem': ety[1]})


def b_mdict_pop(I, slf, args, kw, node):
    from .objects import mdict_key, wrap_term
    if len(args) != 1:
        I.oos(node, "dict.pop with a default")
    kt = mdict_key(I, slf, args[0], node)
    if not I.path.decide(z3.Select(slf.t['has'], kt)):
        I.raise_('KeyError', node)
    v = wrap_term(I, slf.extra['elem'], z3.Select(slf.t['val'], kt))
    slf.t = {'has': z3.Store(slf.t['has'], kt, z3.BoolVal(False)), 'val': slf.t['val']}
    return v


def b_slist_index(I, slf, args, kw, node):
    return I.registry.slist_index(I, slf, args[0], node)


def b_dict_get(I, slf, args, kw, node):
    from .objects import odict_of
    od = odict_of(I, slf)
    key = args[0]
    default = args[1] if len(args) > 1 else NONE
    if od is None:
        if slf.kind == 'cdict':
            from .ops import eq_terms
            for k, v in slf.t:
                if I.path.decide(eq_terms(I, key, k, node)):
                    return v
            return default
        I.oos(node, "dict.get")
    if I.path.decide(z3.Select(od.t['has'], key.t)):
        return I.get_item(slf, key, node)
    return default


def b_dict_items(I, slf, args, kw, node):
    return SV('items_view', slf)


def b_dict_keys(I, slf, args, kw, node):
    return SV('keys_view', slf)


def b_dict_values(I, slf, args, kw, node):
    return SV('values_view', slf)


def b_dict(I, slf, args, kw, node):
    if not args and not kw:
        return SV('cdict', [])
    if len(args) == 1 and args[0].kind in ('items_slice', 'cdict'):
        return args[0] if args[0].kind == 'items_slice' else SV('cdict', list(args[0].t))
    I.oos(node, "dict(...)")


BUILTINS = {
    'len': b_len, 'isinstance': b_isinstance, 'int': b_int, 'float': b_float, 'bool': b_bool, 'str': b_str,
    'bytes': b_bytes, 'type': b_type, 'int.from_bytes': b_from_bytes, 'int.to_bytes': b_to_bytes,
    'getattr': b_getattr, 'min': b_min, 'max': b_max, 'range': b_range, 'list': b_list, 'tuple': b_tuple,
    'all': b_all, 'any': b_any, 'sum': b_sum, 'abs': b_abs, 'float.is_integer': b_is_integer,
    'bytes.decode': b_decode, 'bytes.index': b_bytes_index, 'bytes.hex': b_hex, 'str.lower': b_lower,
    'str.startswith': b_startswith, 'str.endswith': b_endswith, 'list.append': b_list_append,
    'list.index': b_list_index, 'slist.index': b_slist_index, 'slist.append': b_slist_append, 'dict.get': b_dict_get, 'dict.items': b_dict_items,
    'dict.keys': b_dict_keys, 'dict.values': b_dict_values, 'dict': b_dict, 'next': b_next, 'dict.__init__': b_dict_init, 'mdict.get': b_mdict_get, 'mdict.pop': b_mdict_pop,
}


def _install_source_models():
    from . import externals
    BUILTINS['source.read'] = externals.source_read
    BUILTINS['source.recv'] = externals.source_read
    BUILTINS['source.seek'] = externals.source_seek


_install_source_models()
BUILTIN_NAMES = {'len', 'isinstance', 'int', 'float', 'bool', 'str', 'bytes', 'type', 'getattr', 'min', 'max',
                 'range', 'list', 'tuple', 'all', 'any', 'sum', 'abs', 'dict', 'next'}
