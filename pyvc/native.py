#!/venv/bin/python
"""Native side of pyvc: runs the REAL functions of $SPP_REPO under /venv/bin/python and evaluates the SAME contract
clauses (text from /verif/contracts) as ordinary Python with the executable spec primitives of /verif/specs.

Three uses:
  search   : refutation search / bounded stand-in - generated inputs (exhaustive small scope + VERIF_SEED random),
             every input that satisfies `requires` is a cover witness, every clause failure is a candidate violation;
  replay   : re-run one recorded input (replay file) and report the clause verdicts again;
  It never decides a property on its own: proofs come from the prover; this side only produces witnesses.
Usage: native.py search <contracts-module> <target> [--variant V] [--seed N] [--budget N] [--tier quick|thorough]
       native.py replay <replay.json>
"""
import ast
import copy
import importlib
import json
import os
import random
import signal
import sys
import time
import traceback

VERIF = os.path.dirname(os.path.dirname(os.path.abspath(__file__)))
REPO = os.environ.get('SPP_REPO', '/repo')
sys.path.insert(0, VERIF)
sys.path.insert(0, REPO)

import specs.prims as prims          # noqa: E402
from pyvc.cdef import Contract as _Contract   # noqa: E402
_Contract.NATIVE_SIDE = True
import specs.oracles as oracles      # noqa: E402


class Timeout(Exception):
    pass


def _alarm(signum, frame):
    raise Timeout()


def _install_fast_bits():
    """natively, bits(B, p, n) of a field inside B is computed from the bytes that hold it (the defining expression
    converts the WHOLE buffer to an integer first: minutes on a 40 MB stream).  Checked against the definition on random
    inputs every time the harness starts."""
    slow = oracles.bits
    if getattr(slow, '_fast', False):
        return

    def bits(B, p, n):
        if n <= 0 or p < 0 or p + n > 8 * len(B):
            return slow(B, p, n)
        lo, hi = p // 8, (p + n + 7) // 8
        return (int.from_bytes(B[lo:hi], 'big') >> (8 * hi - p - n)) & ((1 << n) - 1)
    bits._fast = True
    rr = random.Random(12345)
    for _ in range(300):
        B = bytes(rr.getrandbits(8) for _ in range(rr.randint(0, 12)))
        p_, n_ = rr.randint(-2, 100), rr.randint(-1, 70)
        try:
            want = slow(B, p_, n_)
        except Exception:
            continue
        assert bits(B, p_, n_) == want, ('fast bits disagrees with its definition', B, p_, n_)
    oracles.bits = bits


def spec_env():
    _install_fast_bits()
    env = {}
    for mod in (prims, oracles):
        for k, v in vars(mod).items():
            if not k.startswith('_'):
                env[k] = v
    return env


def resolve_target(target):
    """'packets.RawPacketData.read_as_int' -> (callable, kind) from the real package under $SPP_REPO."""
    import space_packet_parser  # noqa: F401
    assert os.path.realpath(os.path.dirname(space_packet_parser.__file__)).startswith(os.path.realpath(REPO)), \
        f"wrong tree imported: {space_packet_parser.__file__}"
    parts = target.split('.')
    if parts[0] == 'ghost':
        mod = importlib.import_module('contracts.ghost_programs')
        return getattr(mod, parts[1])
    for i in range(len(parts), 0, -1):
        modname = 'space_packet_parser.' + '.'.join(parts[:i])
        try:
            mod = importlib.import_module(modname)
        except ImportError:
            continue
        obj = mod
        for p in parts[i:]:
            obj = getattr(obj, p)
        return obj
    raise ImportError(target)


class OldSub(ast.NodeTransformer):
    def __init__(self):
        self.olds = []

    def visit_Call(self, node):
        if isinstance(node.func, ast.Name) and node.func.id == 'old':
            self.olds.append(node.args[0])
            return ast.copy_location(ast.Name(id=f'__old_{len(self.olds) - 1}', ctx=ast.Load()), node)
        return self.generic_visit(node)


_compiled = {}


def compile_clause(text):
    if text not in _compiled:
        tree = ast.parse(text.strip(), mode='eval')
        sub = OldSub()
        tree = sub.visit(tree)
        ast.fix_missing_locations(tree)
        olds = [compile(ast.fix_missing_locations(ast.Expression(o)), '<old>', 'eval') for o in sub.olds]
        _compiled[text] = (compile(tree, '<clause>', 'eval'), olds)
    return _compiled[text]


def eval_clause(text, env, olds_vals=None):
    code, olds = compile_clause(text)
    e = dict(env)
    if olds_vals is not None:
        for i, v in enumerate(olds_vals):
            e[f'__old_{i}'] = v
    return eval(code, e)


def eval_olds(text, env):
    code, olds = compile_clause(text)
    return [eval(o, dict(env)) for o in olds]


def describe(v, depth=0):
    """JSON-able description of an input/outcome value."""
    if isinstance(v, (bool, int, str)) or v is None:
        return v
    if isinstance(v, float):
        return repr(v)
    if isinstance(v, (bytes, bytearray)):
        d = {'__bytes__': bytes(v).hex()}
        if hasattr(v, 'pos'):
            d['pos'] = v.pos
        if type(v) is not bytes:
            d['__class__'] = type(v).__name__
        return d
    if isinstance(v, (list, tuple)):
        return [describe(x, depth + 1) for x in v]
    if isinstance(v, dict):
        return {str(k): describe(x, depth + 1) for k, x in v.items()}
    return repr(v)[:300]


def check_one(con, vname, fn, case, env0, timeout_s=5, pid=None):
    """Run one generated case.  case = dict(args=dict, build=callable or None, note=str).
    Returns (status, failures): status in 'skipped' (requires false), 'ok', 'violation'."""
    params, requires, ensures, raises, may_raise, returns = con.for_variant(vname, pid)
    args = case['make']() if 'make' in case else copy.deepcopy(case['args'])
    env = dict(env0)
    env.update(args)
    env.update(case.get('ghost', {}))
    try:
        for r in requires:
            if not eval_clause(r, env):
                return 'skipped', []
    except Exception as e:     # requires not evaluable on this input: not a valid input
        return 'skipped', [f"requires raised {type(e).__name__}: {e}"]
    # pre-state values
    pre = {}
    for group in (ensures,):
        for name, text in group.items():
            pre[text] = eval_olds(text, env)
    ens_raise = {k: con._filter(d, pid) for k, d in con.ensures_raise.items()}
    for d in ens_raise.values():
        for name, text in d.items():
            pre[text] = eval_olds(text, env)
    raise_expect = {e: bool(eval_clause(c, env)) for e, c in raises.items()}
    may_expect = {e: bool(eval_clause(c, env)) for e, c in may_raise.items()}
    call_args = {k: v for k, v in args.items() if k in case.get('call_with', args)}
    failures = []
    result = None
    exc = None
    signal.signal(signal.SIGALRM, _alarm)
    signal.alarm(timeout_s)
    try:
        try:
            if 'invoke' in case:
                result = case['invoke'](fn, args)
            else:
                result = fn(**call_args)
        except Timeout:
            failures.append(('terminates', f'no result within {timeout_s}s'))
            return 'violation', failures
        except Exception as e:   # noqa
            exc = e
    finally:
        signal.alarm(0)
    if exc is not None:
        ename = type(exc).__name__
        declared = None
        mro_names = [c.__name__ for c in type(exc).__mro__]
        cands = [d for d in list(raises) + list(may_raise) if d in mro_names]
        if cands:
            declared = min(cands, key=mro_names.index)      # the most specific declared class
        if declared is None:
            failures.append((f'noexc:{ename}', f'raised {ename}: {exc}'))
        else:
            expect = raise_expect.get(declared, may_expect.get(declared))
            if not expect:
                failures.append((f'raises:{declared}:only_if', f'raised {ename}: {exc} although the condition is false'))
            env['exc'] = exc
            for name, text in ens_raise.get(declared, {}).items():
                try:
                    if not eval_clause(text, env, pre.get(text)):
                        failures.append((f'on_raise:{declared}:{name}', 'clause false'))
                except Exception as e2:
                    failures.append((f'on_raise:{declared}:{name}', f'clause raised {type(e2).__name__}: {e2}'))
        return ('violation' if failures else 'ok'), failures
    for e, expect in raise_expect.items():
        if expect:
            failures.append((f'raises:{e}:must', f'returned {describe(result)!r} although {e} is required'))
    if con._filter(con.yields, pid) or con._filter(con.final, pid):
        # generator under contract: drain it (bounded), checking the yield clauses item by item
        for gname, gdef in list(con.ghost.get('defs', {}).items()) + \
                list((con.variants.get(vname, {}) if vname else {}).get('ghost_defs', {}).items()):
            try:
                env[gname] = eval_clause(gdef, env)
            except Exception:
                pass
        cap = case.get('cap', 10000)
        out = []
        signal.alarm(timeout_s)
        try:
            try:
                for item in result:
                    env['out'] = list(out)
                    env['item'] = bytes(item) if isinstance(item, (bytes, bytearray)) else item
                    env['item_obj'] = item
                    for name, text in con._filter(con.yields, pid).items():
                        try:
                            if not eval_clause(text, env):
                                failures.append((f'yield:{name}', f'clause false at item {len(out)}: {describe(item)!r}'))
                        except Exception as e2:
                            failures.append((f'yield:{name}', f'clause raised {type(e2).__name__}: {e2}'))
                    out.append(env['item'])
                    if len(out) > cap or len(failures) > 5:
                        failures.append(('decreases', f'more than {cap} items from a finite source'))
                        break
            except Timeout:
                failures.append(('decreases', f'generator did not finish within {timeout_s}s'))
            except Exception as e:   # noqa
                failures.append((f'noexc:{type(e).__name__}', f'raised {type(e).__name__}: {e} after {len(out)} items'))
        finally:
            signal.alarm(0)
        env['out'] = out
        result = out
        if not failures:
            for name, text in con._filter(con.final, pid).items():
                try:
                    if not eval_clause(text, env):
                        failures.append((f'post:{name}', f'clause false after {len(out)} items'))
                except Exception as e2:
                    failures.append((f'post:{name}', f'clause raised {type(e2).__name__}: {e2}'))
        if failures:
            return 'violation', failures
    if 'post' in case:
        result = case['post'](result, args)
    env['result'] = result
    env['result_obj'] = result
    for name, text in ensures.items():
        try:
            ok = eval_clause(text, env, pre.get(text))
        except Exception as e2:
            failures.append((f'post:{name}', f'clause not evaluable on this result: {type(e2).__name__}: {e2}'))
            continue
        if not ok:
            failures.append((f'post:{name}', f'clause false; result={describe(result)!r}'))
    return ('violation' if failures else 'ok'), failures


def _shorten(x, limit=600):
    s_ = json.dumps(x, default=str)
    return x if len(s_) <= limit else {'recipe_json_prefix': s_[:limit] + '...'}


def load_contract(modname, target):
    mod = importlib.import_module(modname)
    for c in mod.CONTRACTS:
        if c.target == target:
            return c, mod
    raise KeyError(target)


def search(modname, target, vname, seed, budget, tier, pid=None, deadline=None):
    con, mod = load_contract(modname, target)
    t0 = time.time()
    out = dict(target=target, variant=vname, evaluations=0, accepted=0, skipped=0, violations=[], bound=None,
               distinct_failing_clauses=[])
    if con.native is None:
        out['bound'] = 'no native generator declared'
        return out
    fn = resolve_target(con.native.get('call', target))
    gen = con.native['gen']
    build = con.native['build']
    rng = random.Random(seed)
    env0 = spec_env()
    env0.update(getattr(mod, 'NATIVE_ENV', {}))
    seen_clauses = {}
    distinct = set()
    samples = []
    for recipe in gen(rng, tier, vname):
        case = build(recipe)
        case['recipe'] = recipe
        if out['evaluations'] >= budget or time.time() - t0 > (deadline or (120 if tier == 'quick' else 900)):
            break
        out['evaluations'] += 1
        try:
            status, failures = check_one(con, vname, fn, case, env0, pid=pid)
        except Exception as e:
            out.setdefault('harness_errors', []).append(f"{type(e).__name__}: {e} :: {traceback.format_exc()[-400:]}")
            if len(out['harness_errors']) > 5:
                break
            continue
        if status == 'skipped':
            out['skipped'] += 1
            continue
        out['accepted'] += 1
        import hashlib
        hsh = hashlib.sha1(json.dumps(recipe, sort_keys=True, default=str).encode()).hexdigest()
        if hsh not in distinct:
            distinct.add(hsh)
            if len(samples) < 2:
                samples.append(json.loads(json.dumps(recipe, default=str))) 
        if status == 'violation':
            for clause, why in failures:
                if clause not in seen_clauses:
                    seen_clauses[clause] = 0
                seen_clauses[clause] += 1
                if seen_clauses[clause] <= 3:
                    args = case['make']() if 'make' in case else case['args']
                    out['violations'].append(dict(clause=f"{target}:{clause}", why=why, input=describe(args),
                                                  case=case.get('recipe'), note=case.get('note', '')))
    out['bound'] = getattr(gen, 'bound', (gen.__doc__ or '').strip())
    out['distinct_accepted'] = len(distinct)
    out['samples'] = [_shorten(x) for x in samples]
    out['distinct_failing_clauses'] = sorted(seen_clauses)
    out['failing_counts'] = seen_clauses
    out['seconds'] = round(time.time() - t0, 3)
    return out


def replay(path):
    rec = json.load(open(path))
    con, mod = load_contract(rec['contracts_module'], rec['target'])
    env0 = spec_env()
    env0.update(getattr(mod, 'NATIVE_ENV', {}))
    fn = resolve_target(con.native.get('call', rec['target']) if isinstance(con.native, dict) else rec['target'])
    rebuild = con.native['build'] if isinstance(con.native, dict) and 'build' in con.native else None
    if rec.get('recipe') is None or rebuild is None:
        print(json.dumps(dict(replayed=False, reason='no recipe recorded (no-failing-input-found record)',
                              obligation=rec.get('obligation'))))
        return 0
    case = rebuild(rec['recipe'])
    status, failures = check_one(con, rec.get('variant', ''), fn, case, env0, pid=rec.get('property'))
    print(json.dumps(dict(replayed=True, status=status, failures=failures, obligation=rec.get('obligation')), indent=1))
    return 1 if status == 'violation' else 0


def main(argv):
    # the functions under test may print (progress display): only the final JSON line goes to the real stdout
    real_stdout = sys.stdout
    sys.stdout = open(os.devnull, 'w')
    try:
        return _main(argv, real_stdout)
    finally:
        sys.stdout = real_stdout


def _main(argv, real_stdout):
    if argv[0] == 'search':
        modname, target = argv[1], argv[2]
        opts = dict(zip(argv[3::2], argv[4::2]))
        out = search(modname, target, opts.get('--variant', ''), int(opts.get('--seed', '0')),
                     int(opts.get('--budget', '20000')), opts.get('--tier', 'quick'), opts.get('--prop'),
                     float(opts['--deadline']) if opts.get('--deadline') else None)
        print(json.dumps(out), file=real_stdout)
        return 0
    if argv[0] == 'replay':
        sys.stdout = real_stdout
        return replay(argv[1])
    print(__doc__)
    return 2


if __name__ == '__main__':
    sys.exit(main(sys.argv[1:]))
