"""Per-function verification driver: explores all paths of the real function body and emits named obligations."""
import ast
import time
import traceback
import z3

from . import theory as T
from . import tys as TY
from .sv import (SV, NONE, MObj, Frame, Closure, OutOfSubset, StaleContract, SymRaise, ReturnEx, PathEnd, BreakEx,
                 ContinueEx, mk_int, mk_bool)
from .interp import Interp, Path, Obligation, as_int_term
from .contract import (Contract, eval_spec, eval_spec_value, snapshot, reachable_mobjs, add_hints, _thaw)

MAX_PATHS = 4000


class FunctionResult:
    def __init__(self, target, variant):
        self.target = target
        self.variant = variant
        self.obligations = []
        self.status = 'ok'          # ok | out_of_subset | stale_contract | error
        self.message = ''
        self.paths = 0
        self.time_s = 0.0
        self.outcomes = {}


def build_param(I, name, ty):
    return I.fresh(_thaw(ty) if not isinstance(ty, str) else ty, name)


def type_invariants(I, sv, ty, name):
    """Type/shape invariants of inputs (an is_valid predicate per sort, assumed)."""
    return


def matches_declared(world, exc, declared):
    return world.is_subclass_exc(exc, declared)


def verify_function(world, registry, con, vname=''):
    res = FunctionResult(con.target, vname)
    t0 = time.time()
    if con.native_only:
        res.status = 'bounded_by_design'
        res.message = con.native_only
        return res
    found = world.find_function(con.target)
    if found is None:
        res.status = 'stale_contract'
        res.message = f"target {con.target} not found in source"
        return res
    module, cls, fn = found
    params, requires, ensures, raises, may_raise, returns = con.for_variant(vname, getattr(registry, 'current_prop', None))
    is_gen = any(isinstance(n, (ast.Yield, ast.YieldFrom)) for n in ast.walk(fn))
    work = [[]]
    seen_ob = set()
    while work:
        trace = work.pop()
        res.paths += 1
        if res.paths > MAX_PATHS:
            res.status = 'out_of_subset'
            res.message = f"more than {MAX_PATHS} paths"
            break
        path = Path(trace)
        I = Interp(world, registry, path, fname=con.target)
        I.contract = con
        gd = dict(con.ghost.get('defs', {}))
        if vname and vname in con.variants:
            gd.update(con.variants[vname].get('ghost_defs', {}))
        I.ghost_defs = gd
        outcome = None
        try:
            outcome = run_path(I, con, vname, module, cls, fn, params, requires, ensures, raises, may_raise,
                               returns, is_gen)
        except PathEnd as e:
            outcome = 'end:' + e.why[:40]
        except OutOfSubset as e:
            res.status = 'out_of_subset'
            res.message = str(e)
            res.time_s = time.time() - t0
            return res
        except StaleContract as e:
            res.status = 'stale_contract'
            res.message = str(e)
            res.time_s = time.time() - t0
            return res
        except (ReturnEx, BreakEx, ContinueEx) as e:
            res.status = 'error'
            res.message = f"control-flow signal escaped: {type(e).__name__}"
            return res
        res.outcomes[outcome] = res.outcomes.get(outcome, 0) + 1
        work.extend(path.alts)
        for ob in path.obligations:
            ob.variant = vname
            key = (ob.name, ob.goal.sexpr(), tuple(p.sexpr() for p in ob.pc))
            if key in seen_ob:
                continue
            seen_ob.add(key)
            res.obligations.append(ob)
    res.time_s = time.time() - t0
    return res


def run_path(I, con, vname, module, cls, fn, params, requires, ensures, raises, may_raise, returns, is_gen):
    world, registry, path = I.world, I.registry, I.path
    gframe = registry.global_frame(I, module)
    qual = con.target
    frame = Frame(parent=gframe, module=module, func=qual, cls=cls)
    # enclosing function of a nested def: captured variables come from the contract
    real_params = [a.arg for a in fn.args.posonlyargs + fn.args.args + fn.args.kwonlyargs]
    for pname in params:
        if pname not in real_params and pname not in con.captures:
            raise StaleContract(f"{qual}: contract parameter {pname!r} is not a parameter of the real function "
                                f"(real: {real_params})")
    svs = {}
    for pname, pty in list(con.captures.items()) + list(params.items()):
        svs[pname] = build_param(I, pname, pty)
    # parameters of the real function not mentioned in the contract take their real defaults
    clo = Closure(fn, gframe, qual, module, cls)
    missing = [p for p in real_params if p not in svs]
    if missing:
        allp = fn.args.posonlyargs + fn.args.args
        defaults = dict(zip([a.arg for a in allp][len(allp) - len(fn.args.defaults):], fn.args.defaults))
        defaults.update({a.arg: d for a, d in zip(fn.args.kwonlyargs, fn.args.kw_defaults) if d is not None})
        for p in missing:
            if p not in defaults:
                raise StaleContract(f"{qual}: real parameter {p!r} has no default and is not in the contract")
            svs[p] = I.eval(defaults[p], gframe)
    for k, v in svs.items():
        frame.vars[k] = v
    # a nested def under contract: its sibling nested defs (same enclosing function) are in scope as closures
    parent_qual = qual.rsplit('.', 1)[0]
    pf = world.find_function(parent_qual)
    if pf is not None and pf[2] is not fn and any(sub is fn for sub in ast.walk(pf[2])):
        for st_ in pf[2].body:
            if isinstance(st_, ast.FunctionDef) and st_.name not in frame.vars:
                frame.vars[st_.name] = SV('func', Closure(st_, frame, f"{parent_qual}.{st_.name}", module, cls))
    sf = Frame(parent=None, module='__spec__')
    for k, v in svs.items():
        sf.vars[k] = v
    for i, r in enumerate(requires):
        path.assume(eval_spec(I, r, sf, f"{qual} requires[{i}]"))
    add_hints(I, con.hints, sf)
    snap = snapshot(svs)
    I.old_map = snap
    # raise conditions are functions of the pre-state
    raise_terms = {e: eval_spec(I, c, sf, f"{qual} raises[{e}]") for e, c in raises.items()}
    may_terms = {e: eval_spec(I, c, sf, f"{qual} may_raise[{e}]") for e, c in may_raise.items()}
    if is_gen:
        ety = con.ghost.get('yield_type', 'bytes')
        tagged = ety == 'yieldtag'
        if tagged:
            # heterogeneous yields (raw packets, parsed packets, error objects): the ghost list `out` records the KIND of
            # each item (0 raw bytes, 1 parsed packet, 2 exception object); clauses speak about the item itself
            ety = 'int'
        lt = TY.list_theory(TY.smt_sort(ety))
        path.yielded = SV('slist', lt.lempty, extra={'elem': ety})

        def on_yield(I_, v, node, fr):
            from .contract import coerce_arg
            if tagged:
                kind_tag = 2 if v.kind == 'exc' else (0 if I_.is_byteslike(v) else (1 if v.kind == 'mobj' else None))
                cv = None if kind_tag is None else mk_int(kind_tag)
            else:
                cv = coerce_arg(I_, v, ety, node, 'yield')
            if cv is None:
                path.oblige(f"{qual}:yield:type", z3.BoolVal(False), note=f"yielded {v.kind}")
                raise PathEnd('ill-typed yield')
            sf2 = Frame(parent=sf)
            for k2, v2 in fr.vars.items():
                sf2.vars.setdefault(k2, v2)
            sf2.vars.update(sf.vars)
            sf2.vars['item'] = v if tagged else cv
            sf2.vars['item_obj'] = v
            sf2.vars['out'] = path.yielded
            for name, e in con._filter(con.yields, getattr(registry, 'current_prop', None)).items():
                path.oblige(f"{qual}:yield:{name}", eval_spec(I_, e, sf2, f"{qual} yields[{name}]"))
            path.yielded = SV('slist', lt.lapp(path.yielded.t, cv.t), extra={'elem': ety})
        I.yield_handler = on_yield
    outcome = None
    result = NONE
    I.loop_counter[qual] = 0
    try:
        try:
            I.exec_block(fn.body, frame)
        except ReturnEx as r:
            result = r.v
        outcome = 'return'
    except SymRaise as e:
        outcome = 'raise:' + e.exc_cls
        declared = None
        chain = []
        cur = e.exc_cls
        while cur is not None and len(chain) < 20:
            chain.append(cur)
            cur = world.exc_bases.get(cur)
        cands = [d for d in list(raises) + list(may_raise) if d in chain]
        if cands:
            declared = min(cands, key=chain.index)           # the most specific declared class
        if declared is None:
            path.oblige(f"{qual}:noexc:{e.exc_cls}", z3.BoolVal(False), note=f"raised at {e.origin}")
        else:
            cond = raise_terms.get(declared, may_terms.get(declared))
            path.oblige(f"{qual}:raises:{declared}:only_if", cond, note=f"raised at {e.origin}")
            for attr_, pname_ in con.ghost.get('raise_payload', {}).get(declared, {}).items():
                got = e.payload.get(attr_)
                same = got is not None and got.kind == 'mobj' and svs[pname_].kind == 'mobj' and got.t is svs[pname_].t
                path.oblige(f"{qual}:on_raise:{declared}:payload:{attr_}", z3.BoolVal(bool(same)),
                            note=f"exception attribute {attr_} must be the argument {pname_} itself")
            sf.vars['exc'] = SV('exc', (e.exc_cls, e.payload))
            for k2, v2 in frame.vars.items():
                sf.vars.setdefault(k2, v2)      # exit-state clauses may mention the function's locals
            check_clauses(I, con._filter(con.ensures_raise.get(declared, {}), getattr(registry, 'current_prop', None)),
                          sf, frame, f"{qual}:on_raise:{declared}", svs, snap)
        check_frame(I, con, svs, snap, qual)
        return outcome
    # normal return
    if con.ghost.get('emits'):
        from .specprims import _events
        from .contract import eval_spec_value
        cur = _events(I)
        lt_e = TY.list_theory(TY.Obj)
        obj = eval_spec_value(I, con.ghost['emits'], sf)
        path.events = SV('slist', lt_e.lapp(cur.t, obj.t), extra=cur.extra)
    for e, t in raise_terms.items():
        path.oblige(f"{qual}:raises:{e}:must", z3.Not(t))
    rv = result
    if isinstance(returns, tuple) and returns[0] == 'arg':
        # the contract promises to return the argument object itself
        same = rv.kind == 'mobj' and svs[returns[1]].kind == 'mobj' and rv.t is svs[returns[1]].t
        path.oblige(f"{qual}:post:returns_argument", z3.BoolVal(bool(same)),
                    note=f"returned {rv.kind}/{rv.cls} where the argument {returns[1]} itself is required")
    elif returns is not None and returns != 'any':
        from .contract import coerce_arg
        cv = coerce_arg(I, rv, _thaw(returns) if not isinstance(returns, str) else returns, None, 'result')
        if cv is None:
            path.oblige(f"{qual}:post:result_type", z3.BoolVal(False),
                        note=f"returned {rv.kind}/{rv.cls} where {returns} is required")
            check_frame(I, con, svs, snap, qual)
            return 'return:illtyped'
        rv = cv
    sf.vars['result'] = rv
    sf.vars['result_obj'] = result
    if is_gen:
        sf.vars['out'] = path.yielded
        for k2, v2 in frame.vars.items():
            sf.vars.setdefault(k2, v2)
        ens = dict(ensures)
        ens.update(con.final)
    else:
        ens = dict(ensures)
        if con.final:
            # exit-state clauses of an ordinary function (may mention its locals at the point of return)
            for k2, v2 in frame.vars.items():
                sf.vars.setdefault(k2, v2)
            ens.update(con._filter(con.final, getattr(registry, 'current_prop', None)))
    check_clauses(I, ens, sf, frame, f"{qual}:post", svs, snap)
    check_frame(I, con, svs, snap, qual)
    return outcome


def check_clauses(I, clauses, sf, frame, prefix, svs, snap):
    for name, e in clauses.items():
        try:
            t = eval_spec(I, e, sf, f"{prefix}:{name}")
        except OutOfSubset as ex:
            I.path.oblige(f"{prefix}:{name}", z3.BoolVal(False), note=f"clause not evaluable on this result: {ex}")
            continue
        I.path.oblige(f"{prefix}:{name}", t)


def same_sv(a, b):
    if a is b:
        return True
    if a.kind != b.kind:
        return False
    if a.kind in ('int', 'bool', 'real', 'bytes', 'str', 'rec', 'slist'):
        return a.t.eq(b.t)
    if a.kind == 'mobj':
        return a.t is b.t
    if a.kind == 'none':
        return True
    if a.kind == 'odict':
        return all(a.t[k].eq(b.t[k]) for k in ('has', 'val', 'keys'))
    return False


def sv_equal_term(a, b):
    if a.kind != b.kind:
        return z3.BoolVal(False)
    if a.kind in ('int', 'bool', 'real', 'bytes', 'str', 'rec', 'slist'):
        return a.t == b.t
    if a.kind == 'odict':
        return z3.And(*[a.t[k] == b.t[k] for k in ('has', 'val', 'keys')])
    return z3.BoolVal(False)


def check_frame(I, con, svs, snap, qual):
    """Every field of every mutable object reachable from the parameters that is not in `modifies` is unchanged."""
    allowed = set()
    for loc in con.modifies:
        allowed.add(loc.replace('.items', '.__items__'))
    for name, sv in svs.items():
        for oid, (m, prefix) in reachable_mobjs(sv, None, name).items():
            old = snap.get(oid)
            if old is None:
                continue
            for f, v in m.fields.items():
                loc = f"{prefix}.{f}"
                if loc in allowed:
                    continue
                if f not in old:
                    I.path.oblige(f"{qual}:frame:{loc}", z3.BoolVal(False), note="new attribute set on a parameter object")
                    continue
                if same_sv(old[f], v):
                    continue
                I.path.oblige(f"{qual}:frame:{loc}", sv_equal_term(old[f], v))
