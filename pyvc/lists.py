"""Symbolic lists: slices, min/max, index, and all/any/sum over symbolic sequences."""
import z3

from . import tys as TY
from .sv import SV, OutOfSubset, mk_int, mk_bool, mk_real
from .interp import as_int_term, as_real_term


def slist_slice(I, obj, lo, hi, node):
    raise OutOfSubset("slice of symbolic list")


def _num_view(I, seq, node):
    ety = seq.extra['elem']
    if ety not in ('int', 'real'):
        raise OutOfSubset(f"min/max over list of {ety}")
    lt = TY.list_theory(TY.smt_sort(ety))
    return ety, lt


def slist_minmax(I, seq, is_min, node):
    ety, lt = _num_view(I, seq, node)
    n = lt.llen(seq.t)
    if not I.spec and I.path.decide(n == 0):
        I.raise_('ValueError', node)
    m = I.fresh(ety, 'min' if is_min else 'max')
    j = z3.Int(I.path.fresh_name('j!b'))
    w = z3.Int(I.path.fresh_name('argm'))
    I.path.assume(z3.And(0 <= w, w < n, lt.lat(seq.t, w) == m.t))
    body = (m.t <= lt.lat(seq.t, j)) if is_min else (lt.lat(seq.t, j) <= m.t)
    I.path.assume(z3.ForAll([j], z3.Implies(z3.And(0 <= j, j < n), body), patterns=[lt.lat(seq.t, j)]))
    return m


def slist_index(I, seq, x, node):
    ety = seq.extra['elem']
    lt = TY.list_theory(TY.smt_sort(ety))
    n = lt.llen(seq.t)
    if ety != x.kind:
        raise OutOfSubset(f"list.index of {x.kind} in list of {ety}")
    j = z3.Int(I.path.fresh_name('j!b'))
    r = z3.Int(I.path.fresh_name('idx'))
    found = z3.And(0 <= r, r < n, lt.lat(seq.t, r) == x.t,
                   z3.ForAll([j], z3.Implies(z3.And(0 <= j, j < r), lt.lat(seq.t, j) != x.t),
                             patterns=[lt.lat(seq.t, j)]))
    missing = z3.ForAll([j], z3.Implies(z3.And(0 <= j, j < n), lt.lat(seq.t, j) != x.t), patterns=[lt.lat(seq.t, j)])
    ch = I.path.branch(2, [found, missing])
    if ch == 1:
        I.raise_('ValueError', node)
    return mk_int(r)


def symbolic_all_any(I, gnode, frame, seq, is_all, node):
    """all(<body> for x in <symbolic list>) / any(...): the contract supplies, per comprehension ordinal, a closed spec
    term `elem` (with the bound index j) for the truth of element j.  (1) On a separate sub-path the real body is
    executed at an arbitrary element j (callee contracts applied) and must agree with the summary; (2) on the main
    path the result is the quantified summary.  Elements may raise what the summary's `may_raise` lists."""
    from .loops import sequence_view
    from .contract import eval_spec, parse_expr
    from .sv import Frame, PathEnd, SymRaise
    key = frame.func or I.fname
    n = I.comp_counter.get(key, 0)
    I.comp_counter[key] = n + 1
    con = I.contract
    spec = None
    if con is not None:
        tgt = con.target
        suffix = '' if key == tgt else (key[len(tgt) + 1:] if key.startswith(tgt + '.') else key)
        spec = con.comps.get((suffix, n)) or (con.comps.get(n) if suffix == '' else None)
    if spec is None:
        raise OutOfSubset(f"all/any over a symbolic sequence: comprehension {n} of {key} has no summary in the contract")
    gen = gnode.generators[0]
    if gen.ifs:
        raise OutOfSubset("filtered all/any over a symbolic sequence")
    length, elem_at = sequence_view(I, seq, node)
    idx_name = spec.get('index', 'j')

    def summary(jterm):
        f2 = Frame(parent=frame)
        f2.vars[idx_name] = mk_int(jterm)
        saved_q = getattr(I, 'in_quant', False)
        I.in_quant = True
        try:
            return eval_spec(I, spec['elem'], f2, f"{key}:comp{n}:elem")
        finally:
            I.in_quant = saved_q
    ch = I.path.branch(2)
    if ch == 0:
        # (1) the summary describes the real element expression
        j = z3.Int(I.path.fresh_name('j!e'))
        I.path.assume(z3.And(0 <= j, j < length))
        f2 = Frame(parent=frame)
        I.assign(gen.target, elem_at(j), f2)
        try:
            v = I.eval(gnode.elt, f2)
        except SymRaise as e:
            allowed = spec.get('may_raise', [])
            if not any(I.world.is_subclass_exc(e.exc_cls, a) for a in allowed):
                I.path.oblige(f"{key}:comp{n}:noexc:{e.exc_cls}", z3.BoolVal(False), note=f"element raised at {e.origin}")
            raise PathEnd(f'comprehension element raised {e.exc_cls}')
        if v.kind != 'bool':
            I.path.oblige(f"{key}:comp{n}:elem_is_bool", z3.BoolVal(False), note=f"element expression of kind {v.kind}")
            raise PathEnd('non-bool comprehension element')
        I.path.oblige(f"{key}:comp{n}:elem", v.t == summary(j))
        raise PathEnd('comprehension element checked')
    # (2) main path
    for exc in spec.get('may_raise', []):
        m = z3.Bool(I.path.fresh_name(f"comp_raises_{exc}"))
        if I.path.decide(m):
            raise SymRaise(exc, {}, f"comprehension line {getattr(node, 'lineno', '?')}")
    jb = z3.Int(I.path.fresh_name('j!b'))
    body = summary(jb)
    if is_all:
        return mk_bool(z3.ForAll([jb], z3.Implies(z3.And(0 <= jb, jb < length), body)))
    return mk_bool(z3.Exists([jb], z3.And(0 <= jb, jb < length, body)))


def symbolic_listcomp(I, gnode, frame, seq, node):
    """[<elt> for x in <symbolic list>] whose element expression is not a pure term (it calls functions under contract that
    may raise): the contract supplies under comps[('list', n)] a closed spec term `elem` (bound index j) for element j.
    (1) on a separate sub-path the real element expression is executed at an arbitrary index and must equal the summary;
    (2) on the main path the new list is defined pointwise by the summary.  Returns None when there is no summary."""
    from .loops import sequence_view
    from .contract import eval_spec
    from .sv import Frame, PathEnd, SymRaise
    key = frame.func or I.fname
    con = I.contract
    counter = getattr(I, 'lcomp_counter', None)
    if counter is None:
        counter = I.lcomp_counter = {}
    n = counter.get(key, 0)
    spec = con.comps.get(('list', n)) if con is not None else None
    if spec is None:
        return None
    counter[key] = n + 1
    gen = gnode.generators[0]
    if gen.ifs:
        raise OutOfSubset("filtered list comprehension over a symbolic sequence")
    length, elem_at = sequence_view(I, seq, node)
    idx_name = spec.get('index', 'j')
    ety = spec.get('type', 'int')

    def summary(jterm):
        f2 = Frame(parent=frame)
        f2.vars[idx_name] = mk_int(jterm)
        saved_q = getattr(I, 'in_quant', False)
        I.in_quant = True
        try:
            from .contract import eval_spec_value
            saved_spec = I.spec
            I.spec = True
            try:
                return eval_spec_value(I, spec['elem'], f2)
            finally:
                I.spec = saved_spec
        finally:
            I.in_quant = saved_q
    ch = I.path.branch(2)
    if ch == 0:
        j = z3.Int(I.path.fresh_name('j!e'))
        I.path.assume(z3.And(0 <= j, j < length))
        f2 = Frame(parent=frame)
        I.assign(gen.target, elem_at(j), f2)
        try:
            v = I.eval(gnode.elt, f2)
        except SymRaise as e:
            allowed = spec.get('may_raise', [])
            if not any(I.world.is_subclass_exc(e.exc_cls, a) for a in allowed):
                I.path.oblige(f"{key}:listcomp{n}:noexc:{e.exc_cls}", z3.BoolVal(False), note=f"element raised at {e.origin}")
            raise PathEnd(f'comprehension element raised {e.exc_cls}')
        sv = summary(j)
        if v.kind != sv.kind and not (v.kind in ('int', 'bool') and sv.kind in ('int', 'bool')):
            I.path.oblige(f"{key}:listcomp{n}:elem_kind", z3.BoolVal(False), note=f"element of kind {v.kind}")
            raise PathEnd('ill-kinded comprehension element')
        I.path.oblige(f"{key}:listcomp{n}:elem", v.t == sv.t)
        raise PathEnd('comprehension element checked')
    for exc in spec.get('may_raise', []):
        m = z3.Bool(I.path.fresh_name(f"lcomp_raises_{exc}"))
        if I.path.decide(m):
            raise SymRaise(exc, {}, f"comprehension line {getattr(node, 'lineno', '?')}")
    lt = TY.list_theory(TY.smt_sort(ety))
    L = z3.Const(I.path.fresh_name('lcomp'), lt.sort)
    jb = z3.Int(I.path.fresh_name('j!b'))
    I.path.assume(lt.llen(L) == length)
    pats = [lt.lat(L, jb)]
    if seq.kind == 'slist':
        # element j of the new list is also defined whenever element j of the source list is mentioned
        slt = TY.list_theory(TY.smt_sort(seq.extra['elem']))
        pats.append(slt.lat(seq.t, jb))
    I.path.assume(z3.ForAll([jb], z3.Implies(z3.And(0 <= jb, jb < length), lt.lat(L, jb) == summary(jb).t),
                            patterns=pats))
    return SV('slist', L, extra={'elem': ety})


def symbolic_sum(I, gnode, frame, seq, node):
    """sum(<genexp over a symbolic list>) = lsum of the pointwise-defined list of terms (the element expression must be
    pure); sums of ints are promoted to reals when the terms are reals"""
    from .loops import eval_listcomp
    terms = eval_listcomp(I, gnode, frame)
    return slist_sum(I, terms, node)


def slist_sum(I, terms, node):
    if terms.kind != 'slist' or terms.extra['elem'] not in ('real', 'int'):
        raise OutOfSubset(f"sum of {terms.kind}")
    lt = TY.list_theory(TY.smt_sort(terms.extra['elem']))
    r = lt.lsum(terms.t)
    return mk_real(r) if terms.extra['elem'] == 'real' else mk_int(r)
