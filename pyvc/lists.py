"""Symbolic lists: slices, min/max, index, and all/any/sum over symbolic sequences."""
import z3

from . import tys as TY
from .sv import SV, OutOfSubset, mk_int, mk_bool, mk_real
from .interp import as_int_term, as_real_term


def slist_slice(I, obj, lo, hi, node):
    raise OutOfSubset("slice of symbolic list")


def _num_view(I, seq, node):
    ety = seq.extra['elem']
    if ety not in ('int', 'real'):
        raise OutOfSubset(f"min/max over list of {ety}")
    lt = TY.list_theory(TY.smt_sort(ety))
    return ety, lt


def slist_minmax(I, seq, is_min, node):
    ety, lt = _num_view(I, seq, node)
    n = lt.llen(seq.t)
    if not I.spec and I.path.decide(n == 0):
        I.raise_('ValueError', node)
    m = I.fresh(ety, 'min' if is_min else 'max')
    j = z3.Int(I.path.fresh_name('j!b'))
    w = z3.Int(I.path.fresh_name('argm'))
    I.path.assume(z3.And(0 <= w, w < n, lt.lat(seq.t, w) == m.t))
    body = (m.t <= lt.lat(seq.t, j)) if is_min else (lt.lat(seq.t, j) <= m.t)
    I.path.assume(z3.ForAll([j], z3.Implies(z3.And(0 <= j, j < n), body), patterns=[lt.lat(seq.t, j)]))
    return m


def slist_index(I, seq, x, node):
    ety = seq.extra['elem']
    lt = TY.list_theory(TY.smt_sort(ety))
    n = lt.llen(seq.t)
    if ety != x.kind:
        raise OutOfSubset(f"list.index of {x.kind} in list of {ety}")
    j = z3.Int(I.path.fresh_name('j!b'))
    r = z3.Int(I.path.fresh_name('idx'))
    found = z3.And(0 <= r, r < n, lt.lat(seq.t, r) == x.t,
                   z3.ForAll([j], z3.Implies(z3.And(0 <= j, j < r), lt.lat(seq.t, j) != x.t),
                             patterns=[lt.lat(seq.t, j)]))
    missing = z3.ForAll([j], z3.Implies(z3.And(0 <= j, j < n), lt.lat(seq.t, j) != x.t), patterns=[lt.lat(seq.t, j)])
    ch = I.path.branch(2, [found, missing])
    if ch == 1:
        I.raise_('ValueError', node)
    return mk_int(r)


def symbolic_all_any(I, gnode, frame, seq, is_all, node):
    raise OutOfSubset("all/any over a symbolic sequence (no comprehension summary)")


def symbolic_sum(I, gnode, frame, seq, node):
    """sum(<genexp over a symbolic list>) = lsum of the pointwise-defined list of terms (the element expression must be
    pure); sums of ints are promoted to reals when the terms are reals"""
    from .loops import eval_listcomp
    terms = eval_listcomp(I, gnode, frame)
    return slist_sum(I, terms, node)


def slist_sum(I, terms, node):
    if terms.kind != 'slist' or terms.extra['elem'] not in ('real', 'int'):
        raise OutOfSubset(f"sum of {terms.kind}")
    lt = TY.list_theory(TY.smt_sort(terms.extra['elem']))
    r = lt.lsum(terms.t)
    return mk_real(r) if terms.extra['elem'] == 'real' else mk_int(r)
