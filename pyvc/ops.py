"""Binary operators and comparisons over symbolic values (Python semantics per operand kinds, S1/S2/S3/S10)."""
import ast
import z3

from . import theory as T
from .sv import SV, NONE, NOTIMPL, mk_int, mk_bool, mk_real, mk_str, mk_bytes, OutOfSubset
from .interp import is_num, as_int_term, as_real_term, const_int


def pow2_term(e):
    c = const_int(e)
    if c is not None and 0 <= c <= T.MAX_CONST_EXP:
        return z3.IntVal(2 ** c)
    return T.pow2(e)


def _match_pow2_minus_1(t):
    """If t is (structurally) 2**n - 1 return the exponent term n, else None."""
    t = z3.simplify(t)
    c = const_int(t)
    if c is not None:
        if c >= 0 and ((c + 1) & c) == 0:
            return z3.IntVal((c + 1).bit_length() - 1)
        return None
    # forms:  pow2(n) - 1   |   -1 + pow2(n)
    if z3.is_app(t) and t.decl().kind() == z3.Z3_OP_ADD and t.num_args() == 2:
        x, y = t.arg(0), t.arg(1)
        for p, q in ((x, y), (y, x)):
            if const_int(p) == -1 and z3.is_app(q) and q.decl().name() == 'pow2':
                return q.arg(0)
    if z3.is_app(t) and t.decl().kind() == z3.Z3_OP_SUB and t.num_args() == 2:
        if const_int(t.arg(1)) == 1 and z3.is_app(t.arg(0)) and t.arg(0).decl().name() == 'pow2':
            return t.arg(0).arg(0)
    return None


def _match_pow2(t):
    t = z3.simplify(t)
    c = const_int(t)
    if c is not None:
        if c > 0 and (c & (c - 1)) == 0:
            return z3.IntVal(c.bit_length() - 1)
        return None
    if z3.is_app(t) and t.decl().name() == 'pow2':
        return t.arg(0)
    return None


def _is_const_real(t):
    t = z3.simplify(t)
    return z3.is_rational_value(t) or z3.is_int_value(t)


def int_valued(t):
    """the integer term behind a real term that is structurally integer valued (ToReal(i), sums, differences,
    products of such, integer numerals), else None"""
    t = z3.simplify(t)
    if z3.is_rational_value(t):
        if t.denominator_as_long() == 1:
            return z3.IntVal(t.numerator_as_long())
        return None
    if z3.is_app(t):
        k = t.decl().kind()
        if k == z3.Z3_OP_TO_REAL:
            return t.arg(0)
        if k in (z3.Z3_OP_ADD, z3.Z3_OP_SUB, z3.Z3_OP_MUL, z3.Z3_OP_UMINUS):
            parts = [int_valued(c) for c in t.children()]
            if any(p is None for p in parts):
                return None
            if k == z3.Z3_OP_ADD:
                return z3.Sum(parts) if len(parts) > 1 else parts[0]
            if k == z3.Z3_OP_SUB:
                r = parts[0]
                for p in parts[1:]:
                    r = r - p
                return r
            if k == z3.Z3_OP_UMINUS:
                return -parts[0]
            r = parts[0]
            for p in parts[1:]:
                r = r * p
            return r
    return None


def real_mul(x, y):
    """linear products stay arithmetic; a product of two non-constant reals is the abstract rmul (S3: the proofs use
    congruence only, never the field axioms, so nothing about rounding or algebra is assumed)"""
    if _is_const_real(x) or _is_const_real(y):
        return x * y
    ix, iy = int_valued(x), int_valued(y)
    if ix is not None and iy is not None:
        return z3.ToReal(ix * iy)          # a product of two integer-valued floats (exact below 2**53, S3)
    return T.rmul(x, y)


def real_div(x, y):
    if _is_const_real(y):
        return x / y
    return T.rdiv(x, y)


def int_div(I, a, b, node, floor_mod=False):
    """a // b or a % b for integer terms with Python floor semantics."""
    cb = const_int(b)
    if cb is None:
        if I.path.decide(b == 0):
            I.raise_('ZeroDivisionError', node)
        if not I.path.decide(b > 0):
            I.oos(node, "division by a possibly negative symbolic integer")
    else:
        if cb == 0:
            I.raise_('ZeroDivisionError', node)
        if cb < 0:
            I.oos(node, "division by a negative constant")
    return (a % b) if floor_mod else (a / b)


def binop(I, op, a, b, node):
    ka, kb = a.kind, b.kind
    # ---- bytes ---------------------------------------------------------------------------------------------
    if I.is_byteslike(a) and I.is_byteslike(b) and isinstance(op, ast.Add):
        return mk_bytes(T.cat(I.as_bytes(a), I.as_bytes(b)))
    if ka == 'str' and kb == 'str' and isinstance(op, ast.Add):
        return mk_str(z3.Concat(a.t, b.t))
    if ka == 'str' and isinstance(op, ast.Mult) and kb == 'int':
        return mk_str(z3.String(I.path.fresh_name('strmul')))
    if ka == 'clist' and kb == 'clist' and isinstance(op, ast.Add):
        return SV('clist', list(a.t) + list(b.t))
    # ---- numbers -------------------------------------------------------------------------------------------
    if is_num(a) and is_num(b):
        if ka == 'real' or kb == 'real':
            x, y = as_real_term(a), as_real_term(b)
            if isinstance(op, ast.Add):
                return mk_real(x + y)
            if isinstance(op, ast.Sub):
                return mk_real(x - y)
            if isinstance(op, ast.Mult):
                return mk_real(real_mul(x, y))
            if isinstance(op, ast.Div):
                if not I.spec and I.path.decide(y == 0):
                    I.raise_('ZeroDivisionError', node)
                return mk_real(real_div(x, y))
            if isinstance(op, ast.Pow):
                if kb in ('int', 'bool'):
                    e = as_int_term(b)
                    cx = z3.simplify(x)
                    if z3.is_rational_value(cx) and cx.numerator_as_long() == 2 and cx.denominator_as_long() == 1:
                        return mk_real(T.rpow2(e))
                    ce = const_int(e)
                    if ce is not None and 0 <= ce <= 8:
                        r = z3.RealVal(1)
                        for _ in range(ce):
                            r = r * x
                        return mk_real(r)
                    # x ** n for a real x and an int n (n < 0 included: rpow is the rational power; x == 0 with n < 0 is
                    # excluded by contract where it matters)
                    return mk_real(T.rpow(x, e))
                I.oos(node, "real ** real")
            if isinstance(op, (ast.BitAnd, ast.BitOr, ast.BitXor, ast.LShift, ast.RShift)) and not I.spec:
                I.raise_('TypeError', node)       # unsupported operand type(s): float
            if isinstance(op, ast.FloorDiv) or isinstance(op, ast.Mod):
                I.oos(node, "float // or %")
            I.oos(node, f"real operator {type(op).__name__}")
        x, y = as_int_term(a), as_int_term(b)
        if isinstance(op, ast.Add):
            return mk_int(x + y)
        if isinstance(op, ast.Sub):
            return mk_int(x - y)
        if isinstance(op, ast.Mult):
            return mk_int(x * y)
        if isinstance(op, ast.FloorDiv):
            if I.spec:
                return mk_int(x / y)
            return mk_int(int_div(I, x, y, node))
        if isinstance(op, ast.Mod):
            if I.spec:
                return mk_int(x % y)
            return mk_int(int_div(I, x, y, node, floor_mod=True))
        if isinstance(op, ast.Div):
            if not I.spec and I.path.decide(y == 0):
                I.raise_('ZeroDivisionError', node)
            return mk_real(real_div(z3.ToReal(x), z3.ToReal(y)))
        if isinstance(op, ast.Pow):
            cx = const_int(x)
            if cx == 2:
                if not I.spec and not I.path.decide(y >= 0):
                    # 2 ** negative is a float in Python
                    return mk_real(T.rpow2(y))
                return mk_int(pow2_term(y))
            cy = const_int(y)
            if cy is not None and 0 <= cy <= 8:
                r = z3.IntVal(1)
                for _ in range(cy):
                    r = r * x
                return mk_int(r)
            # int ** symbolic int: modelled as the real power (an int for y >= 0; the callers under contract multiply it
            # by a float coefficient straight away, so the int/float distinction of the intermediate is not observable)
            return mk_real(T.rpow(z3.ToReal(x), y))
        if isinstance(op, ast.LShift):
            if not I.spec and I.path.decide(y < 0):
                I.raise_('ValueError', node)
            return mk_int(x * pow2_term(y))
        if isinstance(op, ast.RShift):
            if not I.spec and I.path.decide(y < 0):
                I.raise_('ValueError', node)
            cy = const_int(y)
            if cy == 0:
                return mk_int(x)
            return mk_int(T.shr(x, y))
        if isinstance(op, ast.BitAnd):
            for p, q in ((x, y), (y, x)):
                n = _match_pow2_minus_1(q)
                if n is not None:
                    # x & (2**n - 1) == x mod 2**n   (Nat.and_two_pow_sub_one_eq_mod); needs n >= 0, holds for any int x
                    return mk_int(T.low(p, n))
            for p, q in ((x, y), (y, x)):
                n = _match_pow2(q)
                if n is not None:
                    return mk_int(T.band(p, T.pow2(n)))
            return mk_int(T.band(x, y))
        if isinstance(op, ast.BitOr):
            if ka == 'bool' and kb == 'bool':
                return mk_bool(z3.Or(a.t, b.t))
            return mk_int(T.bor(x, y))
        I.oos(node, f"int operator {type(op).__name__}")
    if not I.spec:
        # Python rejects the remaining combinations with TypeError (S10) when both kinds are plain data
        plain = ('int', 'bool', 'real', 'bytes', 'str', 'none')
        if ka in plain and kb in plain:
            I.raise_('TypeError', node)
    I.oos(node, f"operator {type(op).__name__} on {ka}/{kb}")


def eq_terms(I, a, b, node):
    """z3 Bool for a == b (Python ==) or None if never equal by kind."""
    ka, kb = a.kind, b.kind
    if is_num(a) and is_num(b):
        if ka == 'bool' and kb == 'bool':
            return a.t == b.t
        if ka == 'real' or kb == 'real':
            return as_real_term(a) == as_real_term(b)
        return as_int_term(a) == as_int_term(b)
    if I.is_byteslike(a) and I.is_byteslike(b):
        return I.as_bytes(a) == I.as_bytes(b)
    if ka == 'str' and kb == 'str':
        return a.t == b.t
    if ka == 'none' or kb == 'none':
        return z3.BoolVal(ka == kb)
    if ka == 'cls' and kb == 'cls':
        return z3.BoolVal(a.t == b.t)
    if ka == 'rec' and kb == 'rec':
        return a.t == b.t
    if ka == 'tuple' and kb == 'tuple':
        if len(a.t) != len(b.t):
            return z3.BoolVal(False)
        parts = [eq_terms(I, x, y, node) for x, y in zip(a.t, b.t)]
        return z3.And(*parts) if parts else z3.BoolVal(True)
    if ka == 'clist' and kb == 'clist':
        if len(a.t) != len(b.t):
            return z3.BoolVal(False)
        parts = [eq_terms(I, x, y, node) for x, y in zip(a.t, b.t)]
        return z3.And(*parts) if parts else z3.BoolVal(True)
    if ka == 'slist' and kb == 'slist':
        return a.t == b.t
    if ka == 'mdict' and kb == 'mdict':
        # the same keys with the same values (entries of absent keys are not observable)
        kq = z3.Const('k!q', a.t['has'].domain())
        return z3.And(a.t['has'] == b.t['has'],
                      z3.ForAll([kq], z3.Implies(z3.Select(a.t['has'], kq),
                                                 z3.Select(a.t['val'], kq) == z3.Select(b.t['val'], kq)),
                                patterns=[z3.Select(a.t['val'], kq)]))
    if ka == 'slist' and kb in ('clist', 'tuple') or kb == 'slist' and ka in ('clist', 'tuple'):
        from .objects import as_slist
        sl_, cl_ = (a, b) if ka == 'slist' else (b, a)
        return sl_.t == as_slist(I, cl_, sl_.extra['elem'], node).t
    if ka == 'ext' and kb == 'ext':
        return z3.BoolVal(a.t == b.t)
    plain = ('int', 'bool', 'real', 'bytes', 'str', 'none')
    if ka in plain and kb in plain:
        return z3.BoolVal(False)       # e.g. 1 == "1"  ->  False
    I.oos(node, f"== on {ka}/{kb}")


def compare(I, op, a, b, node):
    if isinstance(op, (ast.Eq, ast.NotEq)):
        e = eq_terms(I, a, b, node)
        return mk_bool(e if isinstance(op, ast.Eq) else z3.Not(e))
    if isinstance(op, (ast.Is, ast.IsNot)):
        r = is_terms(I, a, b, node)
        return mk_bool(r if isinstance(op, ast.Is) else z3.Not(r))
    if isinstance(op, (ast.In, ast.NotIn)):
        r = in_terms(I, a, b, node)
        return mk_bool(r if isinstance(op, ast.In) else z3.Not(r))
    # ordering
    if is_num(a) and is_num(b):
        if a.kind == 'real' or b.kind == 'real':
            x, y = as_real_term(a), as_real_term(b)
        else:
            x, y = as_int_term(a), as_int_term(b)
        if isinstance(op, ast.Lt):
            return mk_bool(x < y)
        if isinstance(op, ast.LtE):
            return mk_bool(x <= y)
        if isinstance(op, ast.Gt):
            return mk_bool(x > y)
        if isinstance(op, ast.GtE):
            return mk_bool(x >= y)
    if a.kind == 'str' and b.kind == 'str':
        if isinstance(op, ast.Lt):
            return mk_bool(a.t < b.t)
        if isinstance(op, ast.LtE):
            return mk_bool(a.t <= b.t)
        if isinstance(op, ast.Gt):
            return mk_bool(b.t < a.t)
        if isinstance(op, ast.GtE):
            return mk_bool(b.t <= a.t)
    plain = ('int', 'bool', 'real', 'bytes', 'str', 'none')
    if a.kind in plain and b.kind in plain and not (I.is_byteslike(a) and I.is_byteslike(b)):
        if not I.spec:
            I.raise_('TypeError', node)
        # in a spec: ordering between text and numbers is left unspecified (an unconstrained truth value)
        return mk_bool(z3.Bool(I.path.fresh_name('unspecified_order')))
    I.oos(node, f"ordering on {a.kind}/{b.kind}")


def is_terms(I, a, b, node):
    ka, kb = a.kind, b.kind
    if ka == 'none' or kb == 'none':
        return z3.BoolVal(ka == kb)
    if ka == 'notimpl' or kb == 'notimpl':
        return z3.BoolVal(ka == kb)
    if ka == 'bool' and kb == 'bool':
        # `x is True` for a genuine bool x
        if a.cls is None and b.cls is None:
            return a.t == b.t
        return z3.BoolVal(False)   # a BoolParameter instance is never the True/False singleton
    if (ka == 'bool') != (kb == 'bool'):
        return z3.BoolVal(False)
    if ka == 'mobj' and kb == 'mobj':
        return z3.BoolVal(a.t is b.t)
    if ka == 'rec' and kb == 'rec':
        return a.t == b.t
    if ka == 'cls' and kb == 'cls':
        return z3.BoolVal(a.t == b.t)
    if ka == 'exc' and kb == 'exc':
        return z3.BoolVal(a.t is b.t or (a.t[0] == b.t[0] and a.t[1] is b.t[1]))
    if {ka, kb} <= {'exc', 'mobj', 'rec', 'cls', 'func', 'odict', 'mdict'} and ka != kb:
        return z3.BoolVal(False)          # objects of different kinds of the model are never the same object
    I.oos(node, f"`is` on {ka}/{kb}")


def in_terms(I, a, b, node):
    """a in b"""
    if b.kind in ('clist', 'tuple'):
        parts = []
        for x in b.t:
            parts.append(eq_terms(I, a, x, node))
        return z3.Or(*parts) if parts else z3.BoolVal(False)
    if b.kind == 'str' and a.kind == 'str':
        return z3.Contains(b.t, a.t)
    if b.kind == 'cdict':
        parts = [eq_terms(I, a, k, node) for k, _ in b.t]
        return z3.Or(*parts) if parts else z3.BoolVal(False)
    if b.kind == 'smap':
        if a.kind != 'str':
            return z3.BoolVal(False)
        return z3.Select(b.t['has'], a.t)
    if b.kind == 'mdict':
        from .objects import mdict_key
        return z3.Select(b.t['has'], mdict_key(I, b, a, node))
    if b.kind == 'kmap':
        from .objects import kmap_key_term
        kt = kmap_key_term(I, b, a, node)
        return z3.BoolVal(False) if kt is None else z3.Select(b.t['has'], kt)
    from .objects import odict_of, odict_has
    od = odict_of(I, b)
    if od is not None:
        return odict_has(I, od, a, node)
    I.oos(node, f"`in` on {a.kind}/{b.kind}")
