"""Abstract theories used in proof mode.

Every axiom below is a theorem about the concrete definitions

    shr(x,a) = x // 2**a      low(x,a) = x % 2**a      pow2(a) = 2**a        (Python floor semantics, a >= 0)
    Bytes    = finite sequences of ints in [0,255];  blen = len;  sl(b,lo,hi) = b[lo:hi] for 0<=lo<=hi<=len(b)
    cat      = +;  be/le = int.from_bytes(.,'big'/'little');  tb(v,k) = v.to_bytes(k,'big')

and is listed in AXIOMS with a name, so that (a) the Lean file /verif/lean/PyVC.lean states and proves the arithmetic
ones, and (b) pyvc/conformance.py tests every one of them against CPython on boundary and random ground instances
on every run.  The solver never sees the concrete definitions except for *constant* exponents, where
`ground_unfold` adds  shr(t,c) = t div 2^c,  low(t,c) = t mod 2^c,  pow2(c) = 2^c  for the numerals c that occur.
"""
import z3

I = z3.IntSort()
R = z3.RealSort()
Bo = z3.BoolSort()
S = z3.StringSort()

Bytes = z3.DeclareSort('Bytes')

shr = z3.Function('shr', I, I, I)
low = z3.Function('low', I, I, I)
pow2 = z3.Function('pow2', I, I)
band = z3.Function('band', I, I, I)
bor = z3.Function('bor', I, I, I)

blen = z3.Function('blen', Bytes, I)
sl = z3.Function('sl', Bytes, I, I, Bytes)
sln = z3.Function('sln', Bytes, I, I, Bytes)   # sln(d, a, k) = sl(d, a, a + k): window of k bytes at a (the start is a bare
#                                                argument, so a quantified start position can be matched by a trigger)
cat = z3.Function('cat', Bytes, Bytes, Bytes)
be = z3.Function('be', Bytes, I)
le = z3.Function('le', Bytes, I)
bat = z3.Function('bat', Bytes, I, I)
tb = z3.Function('tb', I, I, Bytes)      # to_bytes big endian (value, length)
tl = z3.Function('tl', I, I, Bytes)      # to_bytes little endian
bempty = z3.Const('bempty', Bytes)
bfind = z3.Function('bfind', Bytes, Bytes, I)   # bytes.index(sub) or -1

rpow = z3.Function('rpow', R, I, R)     # real ** int  (int >= 0)
rpow2 = z3.Function('rpow2', I, R)      # 2.0 ** int (any int)
rmul = z3.Function('rmul', R, R, R)     # product of two non-constant reals (kept abstract: only congruence is used)
rdiv = z3.Function('rdiv', R, R, R)     # quotient by a non-constant real (divisor != 0 checked by the interpreter)
i2r = z3.ToReal

x, a, b, c, v, k = z3.Ints('x!q a!q b!q c!q v!q k!q')
d, e, f = z3.Consts('d!q e!q f!q', Bytes)
lo, hi, lo2, hi2 = z3.Ints('lo!q hi!q lo2!q hi2!q')
r = z3.Real('r!q')


def FA(vs, body, pats):
    return z3.ForAll(vs, body, patterns=pats)


def _imp(p, q):
    return z3.Implies(p, q)


def build_axioms():
    A = []

    def ax(name, formula):
        A.append((name, formula))
    # ---- bit fields -------------------------------------------------------------------------------------------
    ax('shr_shr', FA([x, a, b], _imp(z3.And(a >= 0, b >= 0), shr(shr(x, a), b) == shr(x, a + b)), [shr(shr(x, a), b)]))
    ax('shr_low_ge', FA([x, a, b], _imp(z3.And(a >= b, b >= 0), shr(low(x, a), b) == low(shr(x, b), a - b)),
                        [shr(low(x, a), b)]))
    ax('shr_low_lt', FA([x, a, b], _imp(z3.And(a < b, a >= 0), shr(low(x, a), b) == 0), [shr(low(x, a), b)]))
    ax('low_low_ge', FA([x, a, b], _imp(z3.And(a >= b, b >= 0), low(low(x, a), b) == low(x, b)), [low(low(x, a), b)]))
    ax('low_low_lt', FA([x, a, b], _imp(z3.And(a < b, a >= 0), low(low(x, a), b) == low(x, a)), [low(low(x, a), b)]))
    ax('shr_0', FA([x, a], _imp(a == 0, shr(x, a) == x), [shr(x, a)]))
    ax('low_0', FA([x, a], _imp(a == 0, low(x, a) == 0), [low(x, a)]))
    ax('low_range', FA([x, a], _imp(a >= 0, z3.And(low(x, a) >= 0, low(x, a) < pow2(a))), [low(x, a)]))
    ax('low_id', FA([x, a], _imp(z3.And(a >= 0, x >= 0, x < pow2(a)), low(x, a) == x), [low(x, a)]))
    ax('shr_nonneg', FA([x, a], _imp(z3.And(a >= 0, x >= 0), z3.And(shr(x, a) >= 0, shr(x, a) <= x)), [shr(x, a)]))
    ax('pow2_pos', FA([a], pow2(a) >= 1, [pow2(a)]))
    ax('pow2_succ', FA([a, b], _imp(z3.And(a >= 0, b == a + 1), pow2(b) == 2 * pow2(a)), [z3.MultiPattern(pow2(a), pow2(b))]))
    ax('pow2_mono', FA([a, b], _imp(z3.And(0 <= a, a <= b), pow2(a) <= pow2(b)), [z3.MultiPattern(pow2(a), pow2(b))]))
    # split:  x = shr(x,a)*2^a + low(x,a)
    ax('split', FA([x, a], _imp(a >= 0, x == shr(x, a) * pow2(a) + low(x, a)), [z3.MultiPattern(shr(x, a), low(x, a))]))
    # single-bit test:  x & 2^k
    ax('band_bit', FA([x, k], _imp(z3.And(k >= 0, x >= 0),
                                   z3.And(_imp(low(shr(x, k), 1) == 1, band(x, pow2(k)) == pow2(k)),
                                          _imp(low(shr(x, k), 1) == 0, band(x, pow2(k)) == 0),
                                          z3.Or(low(shr(x, k), 1) == 0, low(shr(x, k), 1) == 1))),
                      [band(x, pow2(k))]))
    # top bit of a w-bit value:  low(shr(x,w-1),1) == 1  <->  x >= 2^(w-1)      (0 <= x < 2^w)
    ax('top_bit', FA([x, k, a], _imp(z3.And(k >= 0, a == k + 1, x >= 0, x < pow2(a)),
                                     z3.And(_imp(x >= pow2(k), low(shr(x, k), 1) == 1),
                                            _imp(x < pow2(k), low(shr(x, k), 1) == 0))),
                     [z3.MultiPattern(low(shr(x, k), 1), pow2(a))]))
    # ---- bytes ------------------------------------------------------------------------------------------------
    ax('blen_nonneg', FA([d], blen(d) >= 0, [blen(d)]))
    ax('blen_empty', blen(bempty) == 0)
    ax('be_empty', be(bempty) == 0)
    ax('len0_empty', FA([d], _imp(blen(d) == 0, d == bempty), [blen(d)]))
    ax('sl_len', FA([d, lo, hi], _imp(z3.And(0 <= lo, lo <= hi, hi <= blen(d)), blen(sl(d, lo, hi)) == hi - lo),
                    [sl(d, lo, hi)]))
    ax('sl_full', FA([d, lo, hi], _imp(z3.And(lo == 0, hi == blen(d)), sl(d, lo, hi) == d), [sl(d, lo, hi)]))
    ax('sl_sl', FA([d, lo, hi, lo2, hi2],
                   _imp(z3.And(0 <= lo, lo <= hi, hi <= blen(d), 0 <= lo2, lo2 <= hi2, hi2 <= hi - lo),
                        sl(sl(d, lo, hi), lo2, hi2) == sl(d, lo + lo2, lo + hi2)), [sl(sl(d, lo, hi), lo2, hi2)]))
    ax('sln_def', FA([d, a, k], sln(d, a, k) == sl(d, a, a + k), [sln(d, a, k)]))
    ax('cat_len', FA([d, e], blen(cat(d, e)) == blen(d) + blen(e), [cat(d, e)]))
    ax('cat_sl_adj', FA([d, e, lo, hi, lo2, hi2],
                        _imp(z3.And(e == d, lo2 == hi, 0 <= lo, lo <= hi, hi <= hi2, hi2 <= blen(d)),
                             cat(sl(d, lo, hi), sl(e, lo2, hi2)) == sl(d, lo, hi2)),
                        [cat(sl(d, lo, hi), sl(e, lo2, hi2))]))
    ax('cat_assoc', FA([d, e, f], cat(cat(d, e), f) == cat(d, cat(e, f)), [cat(cat(d, e), f)]))
    ax('cat_empty_l', FA([d], cat(bempty, d) == d, [cat(bempty, d)]))
    ax('cat_empty_r', FA([d], cat(d, bempty) == d, [cat(d, bempty)]))
    ax('sl_cat_l', FA([d, e, lo, hi], _imp(z3.And(0 <= lo, lo <= hi, hi <= blen(d)),
                                          sl(cat(d, e), lo, hi) == sl(d, lo, hi)), [sl(cat(d, e), lo, hi)]))
    ax('sl_cat_r', FA([d, e, lo, hi], _imp(z3.And(blen(d) <= lo, lo <= hi, hi <= blen(d) + blen(e)),
                                          sl(cat(d, e), lo, hi) == sl(e, lo - blen(d), hi - blen(d))),
                      [sl(cat(d, e), lo, hi)]))
    ax('be_range', FA([d], z3.And(be(d) >= 0, be(d) < pow2(8 * blen(d))), [be(d)]))
    ax('le_range', FA([d], z3.And(le(d) >= 0, le(d) < pow2(8 * blen(d))), [le(d)]))
    ax('be_sl', FA([d, lo, hi], _imp(z3.And(0 <= lo, lo <= hi, hi <= blen(d)),
                                    be(sl(d, lo, hi)) == low(shr(be(d), 8 * (blen(d) - hi)), 8 * (hi - lo))),
                   [be(sl(d, lo, hi))]))
    ax('be_cat', FA([d, e], be(cat(d, e)) == be(d) * pow2(8 * blen(e)) + be(e), [be(cat(d, e))]))
    ax('be_inj', FA([d, e], _imp(z3.And(blen(d) == blen(e), be(d) == be(e)), d == e), [z3.MultiPattern(be(d), be(e))]))
    # to_bytes: defined for 0 <= v < 2^(8k), k >= 0
    ax('tb_len', FA([v, k], _imp(z3.And(k >= 0, v >= 0, v < pow2(8 * k)), z3.And(blen(tb(v, k)) == k, be(tb(v, k)) == v)),
                    [tb(v, k)]))
    ax('tl_len', FA([v, k], _imp(z3.And(k >= 0, v >= 0, v < pow2(8 * k)), z3.And(blen(tl(v, k)) == k, le(tl(v, k)) == v)),
                    [tl(v, k)]))
    # byte reversal: the big-endian value of the little-endian encoding is the little-endian value of the big-endian one
    ax('be_tl', FA([v, k], _imp(z3.And(k >= 0, v >= 0, v < pow2(8 * k)), be(tl(v, k)) == le(tb(v, k))), [be(tl(v, k))]))
    ax('bat_range', FA([d, a], _imp(z3.And(0 <= a, a < blen(d)), z3.And(bat(d, a) >= 0, bat(d, a) <= 255)), [bat(d, a)]))
    # bytes.index: least aligned-or-not byte offset of the first occurrence, or -1
    ax('bfind_range', FA([d, e], z3.And(bfind(d, e) >= -1, _imp(bfind(d, e) >= 0, bfind(d, e) + blen(e) <= blen(d))),
                         [bfind(d, e)]))
    ax('bfind_hit', FA([d, e], _imp(bfind(d, e) >= 0, sl(d, bfind(d, e), bfind(d, e) + blen(e)) == e), [bfind(d, e)]))
    # ---- reals ------------------------------------------------------------------------------------------------
    ax('rpow_0', FA([r, a], _imp(a == 0, rpow(r, a) == 1), [rpow(r, a)]))
    ax('rpow_1', FA([r, a], _imp(a == 1, rpow(r, a) == r), [rpow(r, a)]))
    ax('rpow2_pos', FA([a], rpow2(a) > 0, [rpow2(a)]))
    ax('rpow2_0', rpow2(0) == 1)
    return A


AXIOMS = build_axioms()


def window(dd, lo_t, hi_t):
    """sl(dd, lo, hi), written as sln(dd, lo, k) when hi is syntactically lo + k for a non-constant lo"""
    if not z3.is_int_value(lo_t) and z3.is_app_of(hi_t, z3.Z3_OP_ADD):
        kids = hi_t.children()
        for n_, c_ in enumerate(kids):
            if c_.eq(lo_t):
                rest = kids[:n_] + kids[n_ + 1:]
                kk = rest[0] if len(rest) == 1 else z3.Sum(rest)
                return sln(dd, lo_t, kk)
    return sl(dd, lo_t, hi_t)


def axiom_instances_for(term):
    """ground instances of the sign axioms (blen_nonneg) for the length terms inside `term`: lets the path feasibility
    check, which does not load the quantified axioms, see that a length is not negative"""
    out = []
    for t in subterms([term]):
        if z3.is_app(t) and t.decl().name() == blen.name():
            out.append(t >= 0)
    return out


def axiom_formulas():
    return [f for _, f in AXIOMS]


# --------------------------------------------------------------------------------------------------------------------
# ground unfolding of the definitions for constant exponents, and ground lemma instances for `bor`
# --------------------------------------------------------------------------------------------------------------------

def _walk(t, seen, out):
    if t.get_id() in seen:
        return
    seen.add(t.get_id())
    if z3.is_app(t):
        out.append(t)
        for ch in t.children():
            _walk(ch, seen, out)
    # quantifier bodies are not ground: never instantiate from them


def subterms(formulas):
    seen, out = set(), []
    for f_ in formulas:
        _walk(f_, seen, out)
    return out


def _num(t):
    if z3.is_int_value(t):
        return t.as_long()
    return None


MAX_CONST_EXP = 4096


def ground_unfold(formulas):
    """Extra ground facts (all consequences of the concrete definitions)."""
    extra = []
    seen = set()
    cand_exps = set()
    bors = []
    for t in subterms(formulas):
        if not z3.is_app(t):
            continue
        dn = t.decl().name()
        if dn == 'shr' and (n := _num(t.arg(1))) is not None and 0 <= n <= MAX_CONST_EXP:
            key = ('shr', t.get_id())
            if key not in seen:
                seen.add(key)
                extra.append(t == t.arg(0) / z3.IntVal(2 ** n))
            cand_exps.add(n)
        elif dn == 'low' and (n := _num(t.arg(1))) is not None and 0 <= n <= MAX_CONST_EXP:
            key = ('low', t.get_id())
            if key not in seen:
                seen.add(key)
                extra.append(t == t.arg(0) % z3.IntVal(2 ** n))
            cand_exps.add(n)
        elif dn == 'pow2' and (n := _num(t.arg(0))) is not None and 0 <= n <= MAX_CONST_EXP:
            key = ('pow2', n)
            if key not in seen:
                seen.add(key)
                extra.append(t == z3.IntVal(2 ** n))
            cand_exps.add(n)
        elif dn == 'bor':
            bors.append(t)
        elif dn == '*':
            for ch in t.children():
                m = _num(ch)
                if m is not None and m > 0 and (m & (m - 1)) == 0:
                    cand_exps.add(m.bit_length() - 1)
    # bor(A,B) = A + B when A is a multiple of 2^i and 0 <= B < 2^i  (Nat.two_pow_add_eq_or_of_lt), both orders
    for t in bors:
        A_, B_ = t.arg(0), t.arg(1)
        for i in sorted(cand_exps):
            if i > 128:
                continue
            p = z3.IntVal(2 ** i)
            extra.append(z3.Implies(z3.And(A_ >= 0, A_ % p == 0, B_ >= 0, B_ < p), t == A_ + B_))
            extra.append(z3.Implies(z3.And(B_ >= 0, B_ % p == 0, A_ >= 0, A_ < p), t == A_ + B_))
        extra.append(z3.Implies(z3.And(A_ >= 0, B_ >= 0), t >= 0))
    return extra


# --------------------------------------------------------------------------------------------------------------------
# relevance filter: an axiom can only be instantiated by E-matching if the function symbols of one of its patterns
# occur in the problem; dropping the others is sound (fewer assumptions) and keeps queries small and stable.
# --------------------------------------------------------------------------------------------------------------------

_INTERP_KINDS = None


_SYM_CACHE = {}        # z3 ast id -> frozenset of symbols (terms are hash-consed: an id denotes one term per context)
_PAT_CACHE = {}


def _fsyms(t, acc, depth=0):
    """symbols of term t (memoised per subterm: path conditions are shared by many obligations)"""
    tid = t.get_id()
    got = _SYM_CACHE.get(tid)
    if got is not None:
        acc |= got[0]
        return
    mine = set()
    _fsyms_raw(t, mine)
    _SYM_CACHE[tid] = (frozenset(mine), t)      # keep the term alive so that its id is not reused
    acc |= mine


def _fsyms_raw(t, acc, depth=0):
    if z3.is_quantifier(t):
        _fsyms(t.body(), acc)
        for i in range(t.num_patterns()):
            _fsyms(t.pattern(i), acc)
        return
    if z3.is_app(t):
        d = t.decl()
        if d.kind() == z3.Z3_OP_UNINTERPRETED and t.num_args() > 0:
            acc.add(d.name())
        elif d.kind() == z3.Z3_OP_UNINTERPRETED and t.num_args() == 0:
            acc.add('const:' + str(t.sort()))
        for ch in t.children():
            _fsyms(ch, acc)


def formula_symbols(fs):
    acc = set()
    seen = set()
    for f_ in fs:
        if f_.get_id() in seen:
            continue
        seen.add(f_.get_id())
        _fsyms(f_, acc)
    return acc


def pattern_symbol_sets(q):
    qid = q.get_id()
    got = _PAT_CACHE.get(qid)
    if got is not None:
        return got[0]
    out = _pattern_symbol_sets_raw(q)
    _PAT_CACHE[qid] = (out, q)
    return out


def _pattern_symbol_sets_raw(q):
    out = []
    if not z3.is_quantifier(q):
        return [set()]
    for i in range(q.num_patterns()):
        acc = set()
        _fsyms(q.pattern(i), acc)
        out.append({a for a in acc if not a.startswith('const:') and a != 'pattern'})
    return out or [set()]


def relevant_axioms(named_axioms, base_formulas):
    syms = formula_symbols(base_formulas)
    chosen = []
    remaining = list(named_axioms)
    changed = True
    while changed:
        changed = False
        rest = []
        for name, ax_ in remaining:
            pats = pattern_symbol_sets(ax_)
            if any(p <= syms for p in pats):
                chosen.append((name, ax_))
                syms |= formula_symbols([ax_])
                changed = True
            else:
                rest.append((name, ax_))
        remaining = rest
    return chosen
