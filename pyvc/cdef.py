"""Contract data classes (no solver imports: also loaded by the native replay harness under /venv/bin/python)."""


class LoopSpec:
    def __init__(self, invariants, decreases=None, index=None, modifies=(), hints=(), hints_end=(), retype=None,
                 havoc_yielded=False, havoc_ghost=(), step=None):
        self.invariants = dict(invariants) if isinstance(invariants, dict) else {f"i{k}": v for k, v in enumerate(invariants)}
        self.decreases = decreases
        self.index = index
        self.modifies = list(modifies)
        self.hints = list(hints)
        self.hints_end = list(hints_end)
        self.retype = dict(retype or {})
        self.havoc_yielded = havoc_yielded
        self.havoc_ghost = list(havoc_ghost)
        self.step = dict(step or {})      # clauses relating the locals before (pre_<name>) and after one full iteration


class Contract:
    def __init__(self, target, params, returns=None, requires=(), ensures=None, raises=None, may_raise=None,
                 modifies=(), props=(), loops=None, variants=None, yields=None, captures=None, hints=(),
                 constructs=False, gen=None, pure=False, ensures_raise=None, ghost=None, native=None,
                 comps=None, final=None, note='', requires_for=None, native_only='', reveal=(), hints_after=None):
        self.target = target
        self.params = dict(params)
        self.returns = returns
        self.requires = list(requires)
        self.ensures = dict(ensures or {})
        self.raises = dict(raises or {})           # exception -> condition: raised IFF condition (pre-state)
        self.may_raise = dict(may_raise or {})     # exception -> condition: raised ONLY IF condition
        self.modifies = list(modifies)
        self.props = list(props)
        self.loops = dict(loops or {})             # (qualname suffix or '', ordinal) -> LoopSpec
        self.variants = dict(variants or {})       # name -> dict(params=..., requires=..., ensures=...)
        self.yields = dict(yields or {})
        self.captures = dict(captures or {})
        self.hints = list(hints)
        self.constructs = constructs
        self.gen = gen
        self.pure = pure
        self.ensures_raise = dict(ensures_raise or {})
        self.ghost = dict(ghost or {})
        self.native = native
        self.comps = dict(comps or {})
        self.final = dict(final or {})             # generator exhaustion clauses
        self.note = note
        self.hints_after = dict(hints_after or {})   # local name -> lemma-schema instances added once it is assigned
        self.reveal = list(reveal)         # opaque spec functions whose definition this proof may unfold
        self.native_only = native_only     # non-empty: reason why this contract is checked by the bounded stand-in only
        self.requires_for = dict(requires_for or {})   # property id -> extra preconditions (the property's own domain)

    def variant_names(self):
        return list(self.variants) if self.variants else ['']

    NATIVE_SIDE = False     # set by pyvc/native.py

    @classmethod
    def _filter(cls, d, pid):
        """clauses may be tagged  name: (expr, [tags]):  property ids - checked only under those properties (assumed by
        every caller);  '__native__' - evaluated by the native harness only (e.g. exact-rational comparison up to
        rounding);  '__proof__' - for the prover only (e.g. equality over the reals, which floats only approximate)"""
        out = {}
        for k, v in d.items():
            if isinstance(v, tuple):
                expr, tags = v
                if '__native__' in tags and not cls.NATIVE_SIDE:
                    continue
                if '__proof__' in tags and cls.NATIVE_SIDE:
                    continue
                props = [t for t in tags if not t.startswith('__')]
                if pid is None or not props or pid in props:
                    out[k] = expr
            else:
                out[k] = v
        return out

    def for_variant(self, vname, pid=None):
        """Effective (params, requires, ensures, raises, may_raise, returns) for a variant; pid filters tagged
        clauses (None = all, as seen by callers)."""
        params = dict(self.params)
        requires = list(self.requires)
        ensures = dict(self.ensures)
        raises = dict(self.raises)
        may_raise = dict(self.may_raise)
        returns = self.returns
        if vname:
            v = self.variants[vname]
            params.update(v.get('params', {}))
            requires += list(v.get('requires', []))
            ensures.update(v.get('ensures', {}))
            raises.update(v.get('raises', {}))
            may_raise.update(v.get('may_raise', {}))
            returns = v.get('returns', returns)
            for k in v.get('drop_ensures', []):
                ensures.pop(k, None)
        if pid is not None:
            requires += list(self.requires_for.get(pid, []))
        requires = list(self._filter({i: r for i, r in enumerate(requires)}, pid).values())
        ensures = self._filter(ensures, pid)
        raises = self._filter(raises, pid)
        may_raise = self._filter(may_raise, pid)
        return params, requires, ensures, raises, may_raise, returns
