"""Symbolic values and control-flow signals of the pyvc interpreter."""
import z3


class SV:
    """A symbolic value.  kind in:
       int bool real bytes str none            -> t is a z3 term (none: t is None)
       tuple                                   -> t is a python tuple of SV
       clist                                   -> t is a python list of SV (concrete length, mutable identity)
       slist                                   -> t = (z3 Array Int->elem, z3 Int length); extra = element descriptor
       rec                                     -> immutable record: t is a z3 term of the class' record sort; cls = class name
       mobj                                    -> t is an MObj
       func                                    -> t is a Closure / FuncRef / BoundMethod / BuiltinRef
       cls                                     -> t is the qualified class name (str)
       ext                                     -> opaque external thing; t is a dotted name (str)
       notimpl                                 -> the NotImplemented singleton
       exc                                     -> exception instance; t = (class name, payload dict)
       pval                                    -> parsed parameter value (tagged datatype term)
       odict                                   -> packet item mapping; t is an ODict
    """
    __slots__ = ('kind', 't', 'cls', 'extra')

    def __init__(self, kind, t=None, cls=None, extra=None):
        self.kind = kind
        self.t = t
        self.cls = cls
        self.extra = extra

    def __repr__(self):
        if self.kind in ('int', 'bool', 'real', 'bytes', 'str', 'rec', 'pval'):
            s = str(self.t)
            return f"<{self.kind}{':' + self.cls if self.cls else ''} {s[:80]}>"
        return f"<{self.kind}{':' + str(self.cls) if self.cls else ''} {str(self.t)[:60]}>"


NONE = SV('none')
NOTIMPL = SV('notimpl')


def mk_int(t):
    if isinstance(t, int):
        t = z3.IntVal(t)
    return SV('int', t)


def mk_bool(t):
    if isinstance(t, bool):
        t = z3.BoolVal(t)
    return SV('bool', t)


def mk_real(t):
    if isinstance(t, (int, float)):
        t = z3.RealVal(t)
    return SV('real', t)


def mk_str(t):
    if isinstance(t, str):
        t = z3.StringVal(t)
    return SV('str', t)


def mk_bytes(t):
    return SV('bytes', t)


class MObj:
    """A mutable object with concrete identity; fields map to SV."""
    _n = 0

    def __init__(self, cls, fields=None):
        self.cls = cls
        self.fields = dict(fields or {})
        MObj._n += 1
        self.oid = MObj._n

    def __repr__(self):
        return f"MObj<{self.cls}#{self.oid} {list(self.fields)}>"


class Cell:
    __slots__ = ('v',)

    def __init__(self, v=None):
        self.v = v


class Frame:
    def __init__(self, parent=None, module=None, func=None, cls=None):
        self.vars = {}
        self.parent = parent
        self.module = module if module is not None else (parent.module if parent else None)
        self.func = func
        self.cls = cls if cls is not None else (parent.cls if parent else None)
        self.self_sv = None

    def lookup(self, name):
        f = self
        while f is not None:
            if name in f.vars:
                return f.vars[name]
            f = f.parent
        return None

    def set(self, name, v):
        self.vars[name] = v


class Closure:
    def __init__(self, node, frame, qualname, module, cls=None):
        self.node = node
        self.frame = frame
        self.qualname = qualname
        self.module = module
        self.cls = cls

    def __repr__(self):
        return f"Closure<{self.qualname}>"


class BoundMethod:
    def __init__(self, func, self_sv):
        self.func = func
        self.self_sv = self_sv

    def __repr__(self):
        return f"Bound<{self.func}>"


class BuiltinRef:
    def __init__(self, name, self_sv=None):
        self.name = name
        self.self_sv = self_sv

    def __repr__(self):
        return f"Builtin<{self.name}>"


# ---- control flow signals ------------------------------------------------------------------------------------------

class ReturnEx(Exception):
    def __init__(self, v):
        self.v = v


class BreakEx(Exception):
    pass


class ContinueEx(Exception):
    pass


class SymRaise(Exception):
    """A Python exception raised by the code under verification on this path."""

    def __init__(self, exc_cls, payload=None, origin=''):
        self.exc_cls = exc_cls          # class name (str), e.g. 'ValueError'
        self.payload = payload or {}
        self.origin = origin

    def __str__(self):
        return f"SymRaise({self.exc_cls} @ {self.origin})"


class PathEnd(Exception):
    """The current path ends here (loop-body end, assumed-false, ...)."""

    def __init__(self, why=''):
        self.why = why


class OutOfSubset(Exception):
    """The code uses something the front end does not translate; the function is not counted as proved."""


class StaleContract(Exception):
    """A contract mentions a name that does not resolve in the current code."""
