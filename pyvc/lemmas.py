"""Structural obligations read from the class ASTs (no solver needed: goals are ground truths about the source)."""
import ast
import z3

from .interp import Obligation

PROTOCOL_METHODS = {
    '__reduce__', '__reduce_ex__', '__getstate__', '__setstate__', '__getnewargs__', '__getnewargs_ex__', '__copy__',
    '__deepcopy__', 'copy', '__eq__', '__ne__', '__hash__', '__lt__', '__le__', '__gt__', '__ge__', '__format__',
    '__str__', '__bool__', '__int__', '__float__', '__index__', '__bytes__', '__len__', '__iter__', '__contains__',
    '__getitem__', '__setitem__', '__delitem__', '__add__', '__radd__', '__sub__', '__rsub__', '__mul__', '__rmul__',
    '__truediv__', '__floordiv__', '__mod__', '__neg__', '__abs__', '__getattr__', '__getattribute__', '__setattr__',
    '__init_subclass__', '__class_getitem__', '__slots__', '__new__', '__init__',
}


def _ob(name, ok, note=''):
    return Obligation(name, [], z3.BoolVal(bool(ok)), note=note)


def c20_structure(reg):
    """C20 under E10: the value classes and the packet classes define no special / copy-protocol method beyond the
    ones the contracts account for, and have the expected bases."""
    w = reg.world
    out = []
    expected = {
        'common.BinaryParameter': (['_Parameter', 'bytes'], set()),
        'common.BoolParameter': (['_Parameter', 'int'], {'__repr__'}),
        'common.FloatParameter': (['_Parameter', 'float'], set()),
        'common.IntParameter': (['_Parameter', 'int'], set()),
        'common.StrParameter': (['_Parameter', 'str'], set()),
        'common._Parameter': ([], {'__new__'}),
        'packets.CCSDSPacket': (['dict'], {'__init__', 'header', 'user_data'}),
        'packets.RawPacketData': (['bytes'], None),
    }
    for qual, (bases, allowed) in expected.items():
        ci = w.find_class(qual)
        if ci is None:
            out.append(_ob(f"{qual}:structure:exists", False, 'class not found'))
            continue
        out.append(_ob(f"{qual}:structure:bases", ci.bases == bases, f"bases are {ci.bases}, expected {bases}"))
        defined = set(ci.methods) | set(ci.attrs)
        special = defined & PROTOCOL_METHODS
        if allowed is None:
            bad = special - {'__str__'}
        else:
            bad = special - allowed
        out.append(_ob(f"{qual}:structure:no_protocol_overrides", not bad,
                       f"defines {sorted(bad)} which the built-in / copyreg behaviour argument (E10) does not cover"))
    ci = w.find_class('packets.RawPacketData')
    if ci is not None:
        pos = ci.attrs.get('pos')
        out.append(_ob('packets.RawPacketData:structure:pos_default_zero',
                       isinstance(pos, ast.Constant) and pos.value == 0, 'class-level cursor default must be 0'))
    return out


LEMMAS = {'C20': [c20_structure]}


def obligations_for(reg, pid):
    out = []
    for fn in LEMMAS.get(pid, []):
        out.extend(fn(reg))
    return out
