#!/opt/veriftools/pyvenv/bin/python
"""Conformance of the prover's idea of Python and of its theories with CPython (run by setup and by thorough checks).

 (a) every axiom of pyvc/theory.py (and of the list theories) is evaluated on random ground instances under the CONCRETE
     definitions (specs/prims.py): an axiom that evaluates to False is an unsound theory;
 (b) every lemma schema (@axiom in specs/oracles.py) is called with random arguments and must return True;
 (c) the interpreter's builtin/operator models: small Python programs (pyvc/conf_programs.py) are run by CPython and by
     the symbolic interpreter; for each concrete input exactly one symbolic path must have a true path condition, and its
     outcome (value or exception class) must be CPython's.
A disagreement is a checker error (exit 3), never a property verdict."""
import ast
import os
import random
import sys
import traceback
from fractions import Fraction

VERIF = os.path.dirname(os.path.dirname(os.path.abspath(__file__)))
sys.path.insert(0, VERIF)

import z3                                   # noqa: E402
from pyvc import theory as T                # noqa: E402
from pyvc import tys as TY                # noqa: E402
import specs.prims as P                     # noqa: E402


class Undefined(Exception):
    pass


def _list_fn(name):
    """executable meaning of the list-theory symbols (python lists; lat outside the list is undefined)"""
    if name.startswith('llen_'):
        return lambda l: len(l)
    if name.startswith('lat_'):
        return lambda l, i: l[i] if 0 <= i < len(l) else _undef()
    if name.startswith('lapp_'):
        return lambda l, x: list(l) + [x]
    if name.startswith('lcat_'):
        return lambda a, b: list(a) + list(b)
    if name.startswith('lpre_'):
        return lambda l, i: sum(l[:i]) if 0 <= i <= len(l) else _undef()
    if name.startswith('lsum_'):
        return lambda l: sum(l)
    return None


def concrete_fn(name):
    lf = _list_fn(name)
    if lf is not None:
        return lf
    table = {
        'shr': lambda x, a: P.shr(x, a) if 0 <= a <= 4096 else _undef(),
        'low': lambda x, a: P.low(x, a) if 0 <= a <= 4096 else _undef(),
        'pow2': lambda a: (1 << a) if 0 <= a <= 4096 else _undef(),
        'band': lambda x, y: x & y, 'bor': lambda x, y: x | y,
        'blen': lambda b: len(b), 'sl': lambda b, lo, hi: b[lo:hi] if 0 <= lo <= hi <= len(b) else _undef(),
        'sln': lambda b, lo, k: b[lo:lo + k] if 0 <= lo <= lo + k <= len(b) else _undef(),
        'cat': lambda a, b: a + b, 'be': lambda b: int.from_bytes(b, 'big'), 'le': lambda b: int.from_bytes(b, 'little'),
        'bat': lambda b, i: b[i] if 0 <= i < len(b) else _undef(),
        'tb': lambda v, k: v.to_bytes(k, 'big') if 0 <= k <= 512 and 0 <= v < (1 << (8 * k)) else _undef(),
        'tl': lambda v, k: v.to_bytes(k, 'little') if 0 <= k <= 512 and 0 <= v < (1 << (8 * k)) else _undef(),
        'bfind': lambda b, s: b.find(s),
        'rmul': lambda x, y: x * y, 'rdiv': lambda x, y: x / y if y != 0 else _undef(),
        'rpow': lambda x, n: x ** n if 0 <= n <= 64 else _undef(), 'rpow2': lambda n: Fraction(2) ** n if -512 <= n <= 512 else _undef(),
    }
    return table.get(name)


def _undef():
    raise Undefined()


def ev(t, env):
    """evaluate a z3 term under concrete semantics; env maps variable names to python values"""
    if z3.is_quantifier(t):
        raise Undefined()
    if z3.is_int_value(t):
        return t.as_long()
    if z3.is_rational_value(t):
        return Fraction(t.numerator_as_long(), t.denominator_as_long())
    if z3.is_true(t):
        return True
    if z3.is_false(t):
        return False
    if z3.is_string_value(t):
        return t.as_string()
    if z3.is_const(t) and t.decl().kind() == z3.Z3_OP_UNINTERPRETED:
        n = t.decl().name()
        if n == 'bempty':
            return b''
        if n.startswith('lempty_'):
            return []
        if n in env:
            return env[n]
        raise KeyError(n)
    k = t.decl().kind()
    ch = t.children()
    if k == z3.Z3_OP_AND:
        return all(ev(c, env) for c in ch)
    if k == z3.Z3_OP_OR:
        return any(ev(c, env) for c in ch)
    if k == z3.Z3_OP_NOT:
        return not ev(ch[0], env)
    if k == z3.Z3_OP_IMPLIES:
        return (not ev(ch[0], env)) or ev(ch[1], env)
    if k == z3.Z3_OP_ITE:
        return ev(ch[1], env) if ev(ch[0], env) else ev(ch[2], env)
    if k == z3.Z3_OP_EQ:
        return ev(ch[0], env) == ev(ch[1], env)
    if k == z3.Z3_OP_DISTINCT:
        vals = [ev(c, env) for c in ch]
        return len(set(map(repr, vals))) == len(vals)
    if k in (z3.Z3_OP_LE, z3.Z3_OP_LT, z3.Z3_OP_GE, z3.Z3_OP_GT):
        a, b = ev(ch[0], env), ev(ch[1], env)
        return {z3.Z3_OP_LE: a <= b, z3.Z3_OP_LT: a < b, z3.Z3_OP_GE: a >= b, z3.Z3_OP_GT: a > b}[k]
    if k == z3.Z3_OP_ADD:
        return sum(ev(c, env) for c in ch)
    if k == z3.Z3_OP_SUB:
        vals = [ev(c, env) for c in ch]
        r = vals[0]
        for v in vals[1:]:
            r -= v
        return r
    if k == z3.Z3_OP_UMINUS:
        return -ev(ch[0], env)
    if k == z3.Z3_OP_MUL:
        r = 1
        for c in ch:
            r *= ev(c, env)
        return r
    if k == z3.Z3_OP_IDIV:
        a, b = ev(ch[0], env), ev(ch[1], env)
        if b <= 0:
            raise Undefined()
        return a // b
    if k == z3.Z3_OP_MOD:
        a, b = ev(ch[0], env), ev(ch[1], env)
        if b <= 0:
            raise Undefined()
        return a % b
    if k == z3.Z3_OP_DIV:
        a, b = Fraction(ev(ch[0], env)), Fraction(ev(ch[1], env))
        if b == 0:
            raise Undefined()
        return a / b
    if k == z3.Z3_OP_TO_REAL:
        return Fraction(ev(ch[0], env))
    if k == z3.Z3_OP_TO_INT:
        import math
        return math.floor(ev(ch[0], env))
    if k == z3.Z3_OP_UNINTERPRETED:
        f = concrete_fn(t.decl().name())
        if f is None:
            raise KeyError(t.decl().name())
        return f(*[ev(c, env) for c in ch])
    if k == z3.Z3_OP_SEQ_LENGTH:
        return len(ev(ch[0], env))
    raise KeyError(f"operator {t.decl().name()} kind {k}")


def rand_value(rng, sort):
    s = str(sort)
    if s == 'Int':
        return rng.choice([0, 1, 2, 3, 7, 8, 9, 15, 16, 17, 31, 63, 64, 255, 256, rng.randint(-4, 70), rng.getrandbits(rng.randint(1, 70))])
    if s == 'Real':
        return Fraction(rng.randint(-50, 50), rng.choice([1, 2, 4]))
    if s == 'Bytes':
        return bytes(rng.getrandbits(8) for _ in range(rng.choice([0, 1, 1, 2, 3, 5, 8, 9])))
    if s == 'Bool':
        return rng.random() < 0.5
    if s.startswith('List_'):
        inner = {'Int': 'Int', 'Real': 'Real', 'Bytes': 'Bytes'}.get(s[5:])
        if inner is None:
            raise KeyError(s)

        class _S:
            def __str__(self):
                return inner
        return [rand_value(rng, _S()) for _ in range(rng.choice([0, 1, 2, 3, 5]))]
    raise KeyError(s)


def check_axioms(rng, n):
    bad, tried, held = [], 0, 0
    named = list(T.AXIOMS)
    _TY = TY
    for srt in (z3.IntSort(), z3.RealSort(), T.Bytes):
        named += [(nm, ax_) for nm, ax_ in _TY.list_theory(srt).axioms if not nm.startswith('lext_')]
    for name, ax in named:
        if not z3.is_quantifier(ax):
            try:
                if not ev(ax, {}):
                    bad.append((name, 'ground axiom false'))
            except (Undefined, KeyError) as e:
                bad.append((name, f'not evaluable: {e}'))
            continue
        nv = ax.num_vars()
        names = [ax.var_name(i) for i in range(nv)]
        sorts = [ax.var_sort(i) for i in range(nv)]
        consts = [z3.Const(nm, so) for nm, so in zip(names, sorts)]
        body = z3.substitute_vars(ax.body(), *reversed(consts))
        nontrivial = 0
        for _ in range(n):
            env = {nm: rand_value(rng, so) for nm, so in zip(names, sorts)}
            # bias towards instances satisfying the guards: related values
            ints = [nm for nm, so in zip(names, sorts) if str(so) == 'Int']
            bts = [nm for nm, so in zip(names, sorts) if str(so) == 'Bytes']
            for nm in ints:
                if rng.random() < 0.5:
                    env[nm] = rng.randint(0, 24)
            if bts and rng.random() < 0.7:
                # structured instance: indices inside the first byte string, in non-decreasing order; equal byte strings
                if len(bts) > 1 and rng.random() < 0.6:
                    for nm in bts[1:]:
                        env[nm] = env[bts[0]]
                L = len(env[bts[0]])
                vals = sorted(rng.randint(0, L) for _ in ints)
                if rng.random() < 0.5 and len(vals) >= 4:
                    # nested slice shape: (lo, hi) then (lo2, hi2) inside hi - lo
                    lo, hi = sorted((rng.randint(0, L), rng.randint(0, L)))
                    lo2, hi2 = sorted((rng.randint(0, hi - lo), rng.randint(0, hi - lo)))
                    vals = [lo, hi, lo2, hi2] + vals[4:]
                if rng.random() < 0.5 and len(vals) >= 3:
                    vals = [vals[0], vals[1], vals[1]] + vals[2:]       # adjacent slices share a bound
                    vals = vals[:len(ints)]
                for nm, v in zip(ints, vals):
                    env[nm] = v
            tried += 1
            try:
                r = ev(body, env)
            except Undefined:
                continue
            except KeyError as e:
                bad.append((name, f'not evaluable: {e}'))
                break
            held += 1
            if not r:
                bad.append((name, f'FALSE at {env}'))
                break
            if z3.is_implies(body):
                try:
                    if ev(body.arg(0), env):
                        nontrivial += 1
                except Undefined:
                    pass
            else:
                nontrivial += 1
        if nontrivial == 0 and not any(b[0] == name for b in bad):
            bad.append((name, 'guard never satisfied by the sampler (vacuous test)'))
    return tried, held, bad


def check_schemas(rng, n):
    import inspect
    import specs.oracles as O
    tree = ast.parse(open(os.path.join(VERIF, 'specs', 'oracles.py')).read())
    bad, tried = [], 0
    for st in tree.body:
        if isinstance(st, ast.FunctionDef) and any(ast.unparse(d).split('(')[0] == 'axiom' for d in st.decorator_list):
            fn = getattr(O, st.name)
            params = [a.arg for a in st.args.args]
            ok_nontrivial = 0
            for _ in range(n):
                if params == ['enc', 'b']:
                    args = _float_args(rng)
                    tried += 1
                    try:
                        r = fn(*args)
                    except Exception as e:   # noqa
                        bad.append((st.name, f'raised {type(e).__name__}: {e}'))
                        break
                    if not r:
                        bad.append((st.name, f'FALSE at {vars(args[0])} {args[1].hex()}'))
                        break
                    ok_nontrivial += 1
                    continue
                if ('container' in params or 'definition' in params) and 'packet' not in params:
                    args = _walk_args(rng, params)
                    tried += 1
                    try:
                        r = fn(*args)
                    except (IndexError, AttributeError, KeyError):
                        continue        # the guard of the schema is false on this instance (implies is eager natively)
                    except Exception as e:   # noqa
                        bad.append((st.name, f'raised {type(e).__name__}: {e}'))
                        break
                    if not r:
                        bad.append((st.name, f'FALSE on a random container tree (i = {args[-1]})'))
                        break
                    ok_nontrivial += 1
                    continue
                if 'packet' in params:
                    args = _criteria_args(rng, params)
                    tried += 1
                    try:
                        r = fn(*args)
                    except Exception as e:   # noqa
                        bad.append((st.name, f'raised {type(e).__name__}: {e}'))
                        break
                    if not r:
                        bad.append((st.name, 'FALSE on a random criteria tree'))
                        break
                    ok_nontrivial += 1
                    continue
                args = []
                for p in params:
                    if p in ('B', 'T', 'data'):
                        args.append(bytes(rng.getrandbits(8) for _ in range(rng.randint(0, 30))))
                    elif p == 'segs':
                        args.append([bytes(rng.getrandbits(8) for _ in range(rng.randint(0, 12)))
                                     for _ in range(rng.randint(2, 6))])
                    else:
                        args.append(rng.choice([0, 1, 2, 3, 6, 8, 16, 32, rng.randint(0, 60)]))
                tried += 1
                try:
                    r = fn(*args)
                except Exception as e:   # noqa
                    continue
                if not r:
                    bad.append((st.name, f'FALSE at {args}'))
                    break
                ok_nontrivial += 1
            if ok_nontrivial == 0:
                bad.append((st.name, 'never evaluated'))
    return tried, bad


def _float_args(rng):
    """(float encoding object, field bytes): every supported encoding / size / byte order with random and special bit
    patterns (zeros, ones, sign bit only, infinities, NaNs)"""
    class FloatDataEncoding:
        pass
    e = FloatDataEncoding()
    e.encoding = rng.choice(['IEEE754', 'IEEE754_1985', 'MILSTD_1750A'])
    e.byte_order = rng.choice(['mostSignificantByteFirst', 'leastSignificantByteFirst'])
    e.size_in_bits = 32 if e.encoding == 'MILSTD_1750A' else rng.choice([16, 32, 64])
    e._struct_format = ('<' if e.byte_order == 'leastSignificantByteFirst' else '>') + {16: 'e', 32: 'f', 64: 'd'}[e.size_in_bits]
    e.default_calibrator = None
    e.context_calibrators = None
    n = e.size_in_bits // 8
    b = rng.choice([bytes(n), b'\xff' * n, b'\x80' + bytes(n - 1), bytes(n - 1) + b'\x80', b'\x7f\xf0' + bytes(n - 2),
                    b'\x7c' + bytes(n - 1), bytes(rng.getrandbits(8) for _ in range(n))])
    return [e, b]


def _walk_args(rng, params):
    """(container, i): a random tree of containers whose entry lists mix parameters and nested containers"""
    class IntegerDataEncoding:
        def __init__(self):
            self.size_in_bits = rng.choice([0, 1, 8, 16])
            self.encoding = rng.choice(['unsigned', 'signed', 'twosComplement', 'bogus'])
            self.default_calibrator = None
            self.context_calibrators = None

    class IntegerParameterType:
        def __init__(self):
            self.encoding = IntegerDataEncoding()

    class Parameter:
        def __init__(self, name):
            self.name = name
            self.parameter_type = IntegerParameterType()

    class SequenceContainer:
        def __init__(self, entries):
            self.entry_list = entries

    def tree(depth):
        es = []
        for k in range(rng.randint(0, 4)):
            if depth > 0 and rng.random() < 0.4:
                es.append(tree(depth - 1))
            else:
                es.append(Parameter(f"P{rng.randint(0, 99)}"))
        return SequenceContainer(es)
    c = tree(3)
    out = []

    class Definition:
        def __init__(self):
            self.containers = {f"C{k}": tree(2) for k in range(rng.randint(0, 3))}
    for p in params:
        if p == 'container':
            out.append(c)
        elif p == 'definition':
            out.append(Definition())
        elif p == 'name':
            out.append(rng.choice(['C0', 'C1', 'C2', 'NOPE']))
        else:
            # an index whose entry is of the kind the schema speaks about when there is one (else any valid index)
            out.append(rng.randint(0, max(0, len(c.entry_list) - 1)))
    return out


def _criteria_args(rng, params):
    """random ANDed/ORed trees of Condition-like objects over a small packet (for the criteria lemma schemas)"""
    from types import SimpleNamespace as NS
    import specs.refsem as R

    def val(v):
        o = R.RInt(v)
        o.raw_value = v
        return o
    packet = {k: val(rng.randint(0, 2)) for k in 'ABCD'}

    def cond():
        return NS(left_param=rng.choice('ABCD'), operator=rng.choice(['==', '!=', '<', 'geq']), right_param=None,
                  right_value=str(rng.randint(0, 2)), left_use_calibrated_value=True, right_use_calibrated_value=False)

    def tree(kind, depth):
        conds = [cond() for _ in range(rng.randint(0, 2))]
        subs = [tree('or' if kind == 'and' else 'and', depth - 1) for _ in range(rng.randint(0, 2))] if depth > 0 else []
        return NS(conditions=conds, ors=subs) if kind == 'and' else NS(conditions=conds, ands=subs)
    class Comparison(NS):
        pass

    def crit_list():
        return [Comparison(referenced_parameter=rng.choice('ABCD'), operator=rng.choice(['==', '<', 'geq']),
                           required_value=str(rng.randint(0, 2)), use_calibrated_value=rng.choice([True, False]))
                for _ in range(rng.randint(0, 2))]
    names = ['K0', 'K1', 'K2', 'K3']
    containers = {n: NS(restriction_criteria=crit_list(), inheritors=[]) for n in names}
    top = NS(restriction_criteria=crit_list(), inheritors=[rng.choice(names) for _ in range(rng.randint(1, 4))])
    out = []
    for p in params:
        if p == 'packet':
            out.append(packet)
        elif p == 'container':
            out.append(top)
        elif p == 'containers':
            out.append(containers)
        elif p == 'i':
            out.append(rng.randint(0, len(top.inheritors) - 1))
        elif p == 'a':
            out.append(tree('and', rng.randint(0, 3)))
        elif p == 'o':
            out.append(tree('or', rng.randint(0, 3)))
        elif p in ('cc', 'dl'):
            # a context calibrator: a list of Comparison-like criteria
            class Comparison(NS):
                pass
            out.append(NS(match_criteria=[Comparison(referenced_parameter=rng.choice('ABCD'), operator=rng.choice(['==', '<', 'geq']),
                                                     required_value=str(rng.randint(0, 2)), use_calibrated_value=rng.choice([True, False]))
                                          for _ in range(rng.randint(0, 3))]))
        elif p == 'cur':
            out.append(rng.choice([None, 1, 2.5]))
        else:
            out.append(cond())
    return out


def check_programs(rng, n):
    """differential test of the interpreter's models against CPython"""
    from pyvc.world import World, ModuleInfo
    from pyvc.contract import Registry
    from pyvc.interp import Interp, Path
    from pyvc.sv import Frame, SV, ReturnEx, SymRaise, PathEnd, OutOfSubset, mk_int, mk_bytes, mk_bool, mk_real, NONE
    import pyvc.conf_programs as CP
    world = World()
    world.modules['conf'] = ModuleInfo('conf', os.path.join(VERIF, 'pyvc', 'conf_programs.py'))
    reg = Registry(world)
    bad, tried = [], 0
    for fname, sig in CP.PROGRAMS.items():
        fn_node = world.modules['conf'].functions[fname]
        pyfn = getattr(CP, fname)
        # enumerate symbolic paths once
        paths = []
        work = [[]]
        oos = None
        while work and len(paths) < 400:
            trace = work.pop()
            path = Path(trace)
            I = Interp(world, reg, path, fname='conf.' + fname)
            frame = Frame(parent=reg.global_frame(I, 'conf'), module='conf', func='conf.' + fname)
            syms = {}
            for pname, kind in sig.items():
                if kind == 'int':
                    syms[pname] = mk_int(z3.Int(pname))
                elif kind == 'bytes':
                    syms[pname] = mk_bytes(z3.Const(pname, T.Bytes))
                elif kind == 'real':
                    syms[pname] = mk_real(z3.Real(pname))
                elif kind == 'bool':
                    syms[pname] = mk_bool(z3.Bool(pname))
                frame.vars[pname] = syms[pname]
            outcome = None
            try:
                try:
                    I.exec_block(fn_node.body, frame)
                    outcome = ('return', NONE)
                except ReturnEx as r:
                    outcome = ('return', r.v)
            except SymRaise as e:
                outcome = ('raise', e.exc_cls)
            except PathEnd:
                outcome = None
            except OutOfSubset as e:
                oos = str(e)
                break
            work.extend(path.alts)
            if outcome is not None:
                paths.append((list(path.pc), outcome))
        if oos:
            bad.append((fname, f'out of subset: {oos}'))
            continue
        for _ in range(n):
            env, args = {}, {}
            for pname, kind in sig.items():
                if kind == 'int':
                    v = rng.choice([0, 1, 2, 5, 7, 8, 9, 16, 255, 256, -1, -8, rng.randint(-20, 80)])
                elif kind == 'bytes':
                    v = bytes(rng.getrandbits(8) for _ in range(rng.choice([0, 1, 2, 3, 4, 6, 9])))
                elif kind == 'real':
                    v = Fraction(rng.randint(-20, 20), rng.choice([1, 2, 4]))
                else:
                    v = rng.random() < 0.5
                env[pname] = v
                args[pname] = float(v) if kind == 'real' else v
            tried += 1
            try:
                native = ('return', pyfn(**args))
            except Exception as e:   # noqa
                native = ('raise', type(e).__name__)
            live = []
            undefined = False
            for pc, outcome in paths:
                try:
                    if all(ev(c, env) for c in pc):
                        live.append(outcome)
                except Undefined:
                    undefined = True
                except KeyError:
                    undefined = True
            if undefined:
                continue
            if len(live) != 1:
                bad.append((fname, f'{len(live)} live paths for {args} (native {native})'))
                break
            kind, val = live[0]
            if kind != native[0]:
                bad.append((fname, f'model {kind} {val} vs CPython {native} at {args}'))
                break
            if kind == 'raise':
                if val != native[1] and not world.is_subclass_exc(native[1], val):
                    bad.append((fname, f'model raises {val}, CPython {native[1]} at {args}'))
                    break
                continue
            try:
                if not same_value(val, native[1], env):
                    bad.append((fname, f'model value differs from CPython {native[1]!r} at {args}'))
                    break
            except Undefined:
                continue
            except KeyError as e:
                bad.append((fname, f'result not evaluable: {e}'))
                break
    return tried, bad


def same_value(sv, native, env):
    k = sv.kind
    if k == 'none':
        return native is None
    if k in ('int', 'bool', 'bytes'):
        v = ev(sv.t, env)
        return v == native and (k != 'bool' or isinstance(native, bool))
    if k == 'real':
        # floats are modelled as reals (S3): agreement up to rounding
        a, b = Fraction(ev(sv.t, env)), Fraction(native)
        return abs(a - b) <= Fraction(1, 10 ** 9) * max(1, abs(a), abs(b))
    if k == 'tuple':
        return isinstance(native, tuple) and len(native) == len(sv.t) and all(same_value(a, b, env) for a, b in zip(sv.t, native))
    raise KeyError(f'result kind {k}')


def main(argv):
    quick = '--quick' in argv
    seed = int(os.environ.get('VERIF_SEED', '0') or 0)
    rng = random.Random(seed)
    n = 150 if quick else 3000
    t1, held, bad1 = check_axioms(rng, n)
    t2, bad2 = check_schemas(rng, n)
    t3, bad3 = check_programs(rng, max(40, n // 4))
    print(f"conformance: {len(T.AXIOMS)} axioms on {t1} ground instances ({held} evaluable); lemma schemas on {t2} instances; "
          f"interpreter models on {t3} program runs")
    for name, why in bad1 + bad2 + bad3:
        print(f"CONFORMANCE-FAILURE {name}: {why}")
    return 3 if (bad1 or bad2 or bad3) else 0


if __name__ == '__main__':
    sys.exit(main(sys.argv[1:]))
