"""Loops (cut at invariants), comprehensions, all/any/sum."""
import ast
import z3

from . import theory as T
from . import tys as TY
from .sv import (mk_bytes, SV, NONE, Frame, OutOfSubset, BreakEx, ContinueEx, PathEnd, StaleContract, mk_int, mk_bool, mk_real)
from .interp import as_int_term, as_real_term, const_int, is_num


def _next_loop(I, frame):
    key = frame.func or I.fname
    n = I.loop_counter.get(key, 0)
    I.loop_counter[key] = n + 1
    return key, n


def havoc_value(I, v, name):
    """A fresh value of the same shape as v."""
    k = v.kind
    if k in ('int', 'bool', 'real', 'bytes', 'str'):
        nv = I.fresh(k, name)
        if v.cls:
            nv = SV(nv.kind, nv.t, cls=v.cls, extra=v.extra)
        return nv
    if k == 'slist':
        lt = TY.list_theory(TY.smt_sort(v.extra['elem']))
        return SV('slist', z3.Const(I.path.fresh_name(name), lt.sort), extra=v.extra)
    if k == 'rec':
        o = z3.Const(I.path.fresh_name(name), TY.Obj)
        classes = v.extra['classes']
        I.path.assume(z3.Or(*[TY.cls_of(o) == TY.class_id(c) for c in classes]))
        return SV('rec', o, cls=v.cls, extra=v.extra)
    if k == 'none':
        return v
    if k == 'mdict':
        return I.fresh(('mdict', v.extra['key'], v.extra['elem']), name)
    if k == 'odict':
        from .objects import fresh_odict
        nv = fresh_odict(I, name)
        nv.extra = v.extra
        return nv
    if k == 'clist':
        # a concrete list assigned in a loop body (e.g. valid_inheritors = []) becomes a symbolic list only if the
        # loop spec declares its element type
        raise OutOfSubset(f"loop modifies concrete list {name}; declare it in the loop spec")
    if k == 'tuple':
        return SV('tuple', tuple(havoc_value(I, x, name) for x in v.t))
    raise OutOfSubset(f"cannot havoc {name} of kind {k}")


def havoc_loop_state(I, st_body, frame, spec):
    names = set(I.assigned_names(st_body))
    if spec is not None:
        names |= set(spec.retype)
    names = sorted(names)
    for nm in names:
        cur = frame.lookup(nm)
        if cur is None:
            continue
        if spec is not None and nm in spec.retype:
            frame.vars[nm] = I.fresh(spec.retype[nm], nm)
            continue
        # the name might live in an enclosing frame only as read; assignment binds locally
        frame.vars[nm] = havoc_value(I, cur, nm)
    if spec is not None:
        for path_expr in spec.modifies:
            from .contract import havoc_location
            havoc_location(I, path_expr, frame)
        if spec.havoc_yielded and I.path.yielded is not None:
            lt = TY.list_theory(TY.smt_sort(I.path.yielded.extra['elem']))
            I.path.yielded = SV('slist', z3.Const(I.path.fresh_name('out'), lt.sort), extra=I.path.yielded.extra)
        for g in spec.havoc_ghost:
            if g == 'events':
                from .specprims import _events
                cur = _events(I)
                lt_e = TY.list_theory(TY.Obj)
                I.path.events = SV('slist', z3.Const(I.path.fresh_name('events'), lt_e.sort), extra=cur.extra)
                continue
            I._frames_for_ghost = [frame]
            I.registry.havoc_ghost(I, g)


def retype_at_entry(I, spec, frame):
    """a concrete list that the loop body extends (declared under `retype`) becomes a symbolic list holding the same
    elements before the invariants are first evaluated"""
    for nm, ty in spec.retype.items():
        cur = frame.lookup(nm)
        if cur is not None and cur.kind == 'clist' and isinstance(ty, tuple) and ty[0] == 'list':
            lt = TY.list_theory(TY.smt_sort(ty[1]))
            t = lt.lempty
            for e in cur.t:
                t = lt.lapp(t, e.t)
            frame.vars[nm] = SV('slist', t, extra={'elem': ty[1]})
        if cur is not None and ty == 'bytes' and cur.kind == 'mobj' and I.is_byteslike(cur):
            frame.vars[nm] = mk_bytes(I.as_bytes(cur))      # `x += more_bytes` turns an instance of a bytes subclass into bytes
        if cur is not None and cur.kind == 'cdict' and isinstance(ty, tuple) and ty[0] == 'mdict':
            if cur.t:
                raise OutOfSubset(f"non-empty dict literal {nm} turned symbolic")
            ks, vs = TY.smt_sort(ty[1]), TY.smt_sort(ty[2])
            frame.vars[nm] = SV('mdict', {'has': z3.K(ks, z3.BoolVal(False)),
                                          'val': z3.Array(I.path.fresh_name(nm + '_empty'), ks, vs)},
                                extra={'key': ty[1], 'elem': ty[2]})


def check_invariants(I, spec, frame, key, n, phase):
    from .contract import eval_spec
    for name, inv in spec.invariants.items():
        t = eval_spec(I, inv, frame, f"{key}:loop{n}:inv:{name}")
        I.path.oblige(f"{key}:loop{n}:inv:{phase}:{name}", t)


def assume_invariants(I, spec, frame, key, n):
    from .contract import eval_spec
    for name, inv in spec.invariants.items():
        I.path.assume(eval_spec(I, inv, frame, f"{key}:loop{n}:inv:{name}"))


def exec_while(I, st, frame):
    from .contract import eval_spec, add_hints
    key, n = _next_loop(I, frame)
    spec = I.registry.loop_spec(I, key, n)
    if spec is None:
        I.oos(st, f"while loop {n} of {key} has no invariant")
    retype_at_entry(I, spec, frame)
    check_invariants(I, spec, frame, key, n, 'init')
    ch = I.path.branch(2)
    havoc_loop_state(I, st.body + [ast.Expr(st.test)], frame, spec)
    assume_invariants(I, spec, frame, key, n)
    add_hints(I, spec.hints, frame)
    var0 = None
    if spec.decreases is not None:
        var0 = as_int_term(_spec_val(I, spec.decreases, frame))
    if ch == 0:
        g = I.eval(st.test, frame)
        I.path.assume(I.truth(g, st.test))
        for nm in list(frame.vars):
            if not nm.startswith('pre_'):
                frame.vars['pre_' + nm] = frame.vars[nm]
        try:
            I.exec_block(st.body, frame)
        except BreakEx:
            return
        except ContinueEx:
            pass
        add_hints(I, spec.hints_end, frame)
        for sname, sexpr in spec.step.items():
            I.path.oblige(f"{key}:loop{n}:step:{sname}", eval_spec(I, sexpr, frame, f"{key}:loop{n}:step:{sname}"))
        check_invariants(I, spec, frame, key, n, 'preserved')
        if var0 is not None:
            var1 = as_int_term(_spec_val(I, spec.decreases, frame))
            I.path.oblige(f"{key}:loop{n}:decreases", z3.And(var0 >= 0, var1 < var0))
        raise PathEnd(f'end of loop body {key}:{n}')
    g = I.eval(st.test, frame)
    I.path.assume(z3.Not(I.truth(g, st.test)))
    if z3.is_false(z3.simplify(z3.Not(I.truth(g, st.test)))):
        raise PathEnd('while True never exits by its guard')
    I.exec_block(st.orelse, frame)


def _spec_val(I, expr, frame):
    from .contract import eval_spec_value
    return eval_spec_value(I, expr, frame)


def iter_concrete(I, seq, node):
    if seq.kind in ('clist', 'tuple'):
        return list(seq.t)
    if seq.kind == 'cdict':
        return [k for k, _ in seq.t]
    return None


def exec_for(I, st, frame):
    from .contract import eval_spec, add_hints
    seq = I.eval(st.iter, frame)
    if seq.kind == 'genexp':
        seq = eval_genexp_list(I, seq)
    items = iter_concrete(I, seq, st)
    if items is not None:
        broke = False
        for it in items:
            I.assign(st.target, it, frame)
            try:
                I.exec_block(st.body, frame)
            except BreakEx:
                broke = True
                break
            except ContinueEx:
                continue
        if not broke:
            I.exec_block(st.orelse, frame)
        return
    key, n = _next_loop(I, frame)
    spec = I.registry.loop_spec(I, key, n)
    if spec is None:
        I.oos(st, f"for loop {n} of {key} over a symbolic sequence has no invariant")
    idx_name = spec.index or '_i'
    length, elem_at = sequence_view(I, seq, st)
    frame.vars[idx_name] = mk_int(0)
    retype_at_entry(I, spec, frame)
    add_hints(I, spec.hints, frame)          # lemma instances are also available for the initial check (index 0)
    check_invariants(I, spec, frame, key, n, 'init')
    ch = I.path.branch(2)
    havoc_loop_state(I, st.body, frame, spec)
    i = z3.Int(I.path.fresh_name(idx_name))
    frame.vars[idx_name] = mk_int(i)
    I.path.assume(z3.And(i >= 0, i <= length))
    assume_invariants(I, spec, frame, key, n)
    add_hints(I, spec.hints, frame)
    if ch == 0:
        I.path.assume(i < length)
        I.assign(st.target, elem_at(i), frame)
        if spec.step:
            # step clauses relate the state at the start of an iteration (pre_<name>, pre_out) to its end
            for nm in list(frame.vars):
                if not nm.startswith('pre_'):
                    frame.vars['pre_' + nm] = _snapshot_sv(frame.vars[nm])
            if I.path.yielded is not None:
                frame.vars['pre_out'] = _snapshot_sv(I.path.yielded)
        try:
            I.exec_block(st.body, frame)
        except BreakEx:
            return
        except ContinueEx:
            pass
        frame.vars[idx_name] = mk_int(i + 1)
        add_hints(I, spec.hints_end, frame)
        if spec.step:
            from .contract import eval_spec
            if I.path.yielded is not None:
                frame.vars['out'] = I.path.yielded
            for sname, sexpr in spec.step.items():
                I.path.oblige(f"{key}:loop{n}:step:{sname}", eval_spec(I, sexpr, frame, f"{key}:loop{n}:step:{sname}"))
            frame.vars.pop('out', None)
        check_invariants(I, spec, frame, key, n, 'preserved')
        raise PathEnd(f'end of loop body {key}:{n}')
    I.path.assume(i == length)
    I.exec_block(st.orelse, frame)


def _snapshot_sv(v):
    """values that are updated in place (symbolic lists, local dicts) are copied for pre_<name> snapshots"""
    if v.kind == 'slist':
        return SV('slist', v.t, cls=v.cls, extra={k_: x for k_, x in (v.extra or {}).items() if k_ != 'backref'})
    if v.kind == 'mdict':
        return SV('mdict', dict(v.t), cls=v.cls, extra=v.extra)
    return v


def bytes_object(I, icls, bterm):
    """an instance of a bytes subclass with class-level cursor (RawPacketData): fresh identity, the given content, and
    the class default of `pos`"""
    from .sv import MObj
    ci = I.world.find_class(icls)
    m = MObj(ci.name)
    m.fields['__bytes__'] = mk_bytes(bterm)
    ca = I.world.find_class_attr(ci, 'pos')
    if ca is not None:
        m.fields['pos'] = I.eval(ca[1], I.registry.global_frame(I, ca[0].module))
    return SV('mobj', m, cls=ci.name)


def sequence_view(I, seq, node):
    """(length term, index -> SV) for a symbolic sequence."""
    from .objects import wrap_term
    if seq.kind == 'slist':
        lt = TY.list_theory(TY.smt_sort(seq.extra['elem']))
        return lt.llen(seq.t), (lambda i: wrap_term(I, seq.extra['elem'], lt.lat(seq.t, i)))
    if seq.kind == 'lslice':
        base, lo_t, hi_t = seq.t
        lt = TY.list_theory(TY.smt_sort(base.extra['elem']))
        return hi_t - lo_t, (lambda i: wrap_term(I, base.extra['elem'], lt.lat(base.t, lo_t + i)))
    if seq.kind == 'range':
        lo, hi = seq.t
        return z3.If(hi > lo, hi - lo, 0), (lambda i: mk_int(lo + i))
    if seq.kind == 'gen':
        # everything a generator under contract yields, as constrained by its exhaustion clauses
        inner = seq.t
        n, at_ = sequence_view(I, inner, node)
        icls = seq.extra['contract'].ghost.get('item_class')
        if icls is None:
            return n, at_
        return n, (lambda i: bytes_object(I, icls, at_(i).t))
    if seq.kind in ('items_view', 'keys_view', 'values_view'):
        return I.registry.view_sequence(I, seq, node)
    I.oos(node, f"iteration over {seq.kind}")


# ---- comprehensions ------------------------------------------------------------------------------------------------

def _single_gen(I, node):
    if len(node.generators) != 1 or node.generators[0].is_async:
        I.oos(node, "comprehension with several generators")
    return node.generators[0]


def eval_genexp_list(I, g):
    node, frame = g.t
    return eval_listcomp(I, node, frame)


def eval_listcomp(I, node, frame):
    gen = _single_gen(I, node)
    seq = I.eval(gen.iter, frame)
    items = iter_concrete(I, seq, node)
    f2 = Frame(parent=frame)
    if items is not None:
        out = []
        for it in items:
            I.assign(gen.target, it, f2)
            ok = True
            for cond in gen.ifs:
                if not I.decide_truth(I.eval(cond, f2), cond):
                    ok = False
                    break
            if ok:
                out.append(I.eval(node.elt, f2))
        return SV('clist', out)
    if gen.ifs:
        return I.registry.filtered_comprehension(I, node, frame, seq)
    from .lists import symbolic_listcomp
    summarized = symbolic_listcomp(I, node, frame, seq, node)
    if summarized is not None:
        return summarized
    # pointwise map over a symbolic sequence: the element expression must be pure (no forks, no exceptions)
    length, elem_at = sequence_view(I, seq, node)
    j = z3.Int(I.path.fresh_name('j!b'))
    rng_assume = z3.And(0 <= j, j < length)
    I.path.pc.append(rng_assume)
    try:
        with PureMode(I, node):
            I.assign(gen.target, elem_at(j), f2)
            body = I.eval(node.elt, f2)
    finally:
        idx = max(i for i, c in enumerate(I.path.pc) if c is rng_assume)
        del I.path.pc[idx]
    if body.kind not in ('int', 'bool', 'real', 'str', 'bytes', 'rec'):
        I.oos(node, f"comprehension element of kind {body.kind}")
    ety = body.kind if body.kind != 'rec' else ('rec', body.extra['classes'])
    lt = TY.list_theory(TY.smt_sort(ety))
    L = z3.Const(I.path.fresh_name('comp'), lt.sort)
    I.path.assume(lt.llen(L) == length)
    pats = [lt.lat(L, j)]
    if seq.kind == 'slist':
        # also define element j of the new list whenever element j of the source list is mentioned
        slt = TY.list_theory(TY.smt_sort(seq.extra['elem']))
        pats.append(slt.lat(seq.t, j))
    I.path.assume(z3.ForAll([j], z3.Implies(z3.And(0 <= j, j < length), lt.lat(L, j) == body.t), patterns=pats))
    return SV('slist', L, extra={'elem': ety})


class PureMode:
    def __init__(self, I, node):
        self.I = I
        self.node = node

    def __enter__(self):
        self.saved = self.I.path.branch
        node = self.node
        I = self.I

        def no_branch(n, conds=None):
            if conds is not None:
                live = [i for i, c in enumerate(conds) if not z3.is_false(z3.simplify(c))]
                if len(live) > 1:
                    live = [i for i in live if I.path._feasible(conds[i])]
                if len(live) == 1:
                    return live[0]
            raise OutOfSubset(f"forking inside a pure comprehension element (line {getattr(node, 'lineno', '?')})")
        self.I.path.branch = no_branch

    def __exit__(self, *a):
        self.I.path.branch = self.saved


def eval_all_any(I, arg, is_all, node):
    if arg.kind == 'genexp':
        gnode, frame = arg.t
        gen = _single_gen(I, gnode)
        seq = I.eval(gen.iter, frame)
        items = iter_concrete(I, seq, node)
        if items is not None:
            f2 = Frame(parent=frame)
            for it in items:
                I.assign(gen.target, it, f2)
                skip = False
                for cond in gen.ifs:
                    if not I.decide_truth(I.eval(cond, f2), cond):
                        skip = True
                        break
                if skip:
                    continue
                v = I.eval(gnode.elt, f2)
                t = I.decide_truth(v, gnode.elt)
                if is_all and not t:
                    return mk_bool(False)
                if not is_all and t:
                    return mk_bool(True)
            return mk_bool(is_all)
        return I.registry.symbolic_all_any(I, gnode, frame, seq, is_all, node)
    items = iter_concrete(I, arg, node)
    if items is None:
        if arg.kind == 'slist' and arg.extra['elem'] == 'bool':
            lt = TY.list_theory(z3.BoolSort())
            j = z3.Int(I.path.fresh_name('j!b'))
            n = lt.llen(arg.t)
            if is_all:
                return mk_bool(z3.ForAll([j], z3.Implies(z3.And(0 <= j, j < n), lt.lat(arg.t, j)),
                                         patterns=[lt.lat(arg.t, j)]))
            return mk_bool(z3.Exists([j], z3.And(0 <= j, j < n, lt.lat(arg.t, j))))
        I.oos(node, f"all/any over {arg.kind}")
    for it in items:
        t = I.decide_truth(it, node)
        if is_all and not t:
            return mk_bool(False)
        if not is_all and t:
            return mk_bool(True)
    return mk_bool(is_all)


def eval_sum(I, arg, node):
    if arg.kind == 'genexp':
        gnode, frame = arg.t
        gen = _single_gen(I, gnode)
        seq = I.eval(gen.iter, frame)
        items = iter_concrete(I, seq, node)
        if items is None:
            return I.registry.symbolic_sum(I, gnode, frame, seq, node)
        lst = eval_listcomp(I, gnode, frame)
        items = lst.t
    else:
        items = iter_concrete(I, arg, node)
        if items is None:
            from .lists import slist_sum
            return slist_sum(I, arg, node)
    acc = mk_int(0)
    for it in items:
        acc = I.binop(ast.Add(), acc, it, node)
    return acc
