"""Contracts (sidecar), the registry, call-site application and the per-function verification driver."""
import ast
import importlib
import os
import sys
import z3

from . import theory as T
from . import tys as TY
from .sv import (SV, NONE, MObj, Frame, Closure, BoundMethod, BuiltinRef, OutOfSubset, StaleContract, SymRaise,
                 ReturnEx, PathEnd, BreakEx, ContinueEx, mk_int, mk_bool, mk_real, mk_str, mk_bytes)
from .interp import Interp, Path, Obligation, as_int_term, as_real_term, const_int, is_num
from .world import World, ClassInfo

VERIF = os.path.dirname(os.path.dirname(os.path.abspath(__file__)))


from .cdef import Contract, LoopSpec  # noqa: E402,F401


# ---------------------------------------------------------------------------------------------------------------------
# registry
# ---------------------------------------------------------------------------------------------------------------------

SPEC_PRIM_NAMES = {'be', 'le', 'sl', 'cat', 'low', 'shr', 'pow2', 'tb', 'tl', 'bat', 'rpow', 'rpow2', 'bfind',
                   'band', 'bor', 'at', 'toreal', 'is_int_valued', 'decode', 'decodable', 'has_key', 'pv',
                   'kind_of', 'raw_of', 'val_of', 'keys_of', 'append', 'cls_is', 'warned', 'i2r', 'src_T', 'src_R', 'coerce_like', 'coercible', 'comparable', 'cap', 'mset', 'mdel', 'events', 'events0', 'lcat', 'kind_is', 'ieee', 'feq', 'bound'}


class Registry:
    def __init__(self, world, contract_modules=None):
        self.world = world
        self.contracts = {}
        self.schemas = {}
        self.namedtuples = {}
        self.oracles = {}
        self.uninterp = {}
        self.axiom_schemas = {}
        self.opaque_defs = {}
        self._reveal_cache = {}
        self._frames = {}
        self._expr_cache = {}
        self.ext_models = {}
        self._scan_namedtuples()
        self._load_oracles()
        if contract_modules is None:
            contract_modules = sorted(f[:-3] for f in os.listdir(os.path.join(VERIF, 'contracts'))
                                      if f.endswith('.py') and not f.startswith('_') and f != 'ghost_programs.py')
        if VERIF not in sys.path:
            sys.path.insert(0, VERIF)
        for m in contract_modules:
            mod = importlib.import_module(f"contracts.{m}")
            for c in getattr(mod, 'CONTRACTS', []):
                self.contracts[c.target] = c
            self.schemas.update(getattr(mod, 'SCHEMA', {}))
        from . import externals
        externals.install(self)

    # ---- schemas ---------------------------------------------------------------------------------------------
    def schema(self, cls):
        out = {}
        ci = self.world.find_class(cls)
        chain = [c.name for c in reversed(self.world.mro(ci))] if ci else [cls]
        for c in chain:
            out.update(self.schemas.get(c, {}))
        if not out and cls not in self.schemas:
            raise OutOfSubset(f"no schema for class {cls}")
        return out

    def field_decl(self, cls, attr):
        ci = self.world.find_class(cls)
        chain = [c.name for c in self.world.mro(ci)] if ci else [cls]
        for c in chain:
            if attr in self.schemas.get(c, {}):
                return (c, _freeze(self.schemas[c][attr]))
        return None

    def _scan_namedtuples(self):
        for m, mi in self.world.modules.items():
            for name, expr in mi.assigns.items():
                f = _namedtuple_fields(expr)
                if f is not None:
                    self.namedtuples[name] = f
            for cname, ci in mi.classes.items():
                for b in ci.node.bases:
                    f = _namedtuple_fields(b)
                    if f is not None:
                        self.namedtuples[cname] = f

    def is_namedtuple(self, cls):
        return cls in self.namedtuples

    def namedtuple_fields(self, cls):
        return self.namedtuples[cls]

    # ---- oracles ---------------------------------------------------------------------------------------------
    def _load_oracles(self):
        p = os.path.join(VERIF, 'specs', 'oracles.py')
        if not os.path.exists(p):
            return
        tree = ast.parse(open(p).read())
        for st in tree.body:
            if isinstance(st, ast.FunctionDef):
                decos = [ast.unparse(d) for d in st.decorator_list]
                deco_names = [d.split('(')[0] for d in decos]
                if 'opaque' in deco_names:
                    d = st.decorator_list[deco_names.index('opaque')]
                    sig = [ast.literal_eval(a) for a in d.args]
                    self.uninterp[st.name] = sig
                    self.opaque_defs[st.name] = st
                elif 'uninterpreted' in deco_names:
                    d = st.decorator_list[deco_names.index('uninterpreted')]
                    sig = [ast.literal_eval(a) for a in d.args]
                    self.uninterp[st.name] = sig
                elif 'axiom' in deco_names:
                    self.axiom_schemas[st.name] = st
                else:
                    self.oracles[st.name] = st

    def reveal_axiom(self, I, name):
        """The definitional axiom of an @opaque oracle:  forall args. name(args) == body  (pattern: the application)."""
        if name in self._reveal_cache:
            return self._reveal_cache[name]
        st = self.opaque_defs[name]
        fn, sig = self.uninterp_fn(name)
        params = [a.arg for a in st.args.args]
        consts = []
        svs = []
        for pn, ty in zip(params, sig[:-1]):
            c = z3.Const(f"{pn}!rv_{name}", TY.smt_sort(ty))
            consts.append(c)
            svs.append(SV(ty, c) if isinstance(ty, str) else None)
        fr = Frame(module='__spec__')
        for pn, sv in zip(params, svs):
            fr.vars[pn] = sv
        saved = I.spec
        I.spec = True
        try:
            body = None
            for stmt in st.body:
                if isinstance(stmt, ast.Return):
                    body = I.eval(stmt.value, fr)
        finally:
            I.spec = saved
        ax = z3.ForAll(consts, fn(*consts) == body.t, patterns=[fn(*consts)])
        self._reveal_cache[name] = ax
        return ax

    def uninterp_fn(self, name):
        """argument kinds of an uninterpreted / opaque spec function: the scalar kinds, 'rec' (a definition object),
        'packet' (the item mapping: expands to its has- and val-arrays), 'cur' (an optional current raw value: expands
        to a tag - 0 none, 1 int, 2 float - and a real)"""
        sig = self.uninterp[name]
        sorts = []
        for s_ in sig[:-1]:
            if s_ == 'rec':
                sorts.append(TY.Obj)
            elif s_ == 'packet':
                sorts += [z3.ArraySort(z3.StringSort(), z3.BoolSort()), z3.ArraySort(z3.StringSort(), TY.PVal)]
            elif s_ == 'smap':
                sorts += [z3.ArraySort(z3.StringSort(), z3.BoolSort()), z3.ArraySort(z3.StringSort(), TY.Obj)]
            elif s_ == 'cur':
                sorts += [z3.IntSort(), z3.RealSort()]
            else:
                sorts.append(TY.smt_sort(s_))
        sorts.append(TY.smt_sort(sig[-1]))
        return z3.Function('spec_' + name, *sorts), sig

    def uninterp_args(self, I, sig, args):
        from .objects import odict_of
        ts = []
        for a, s_ in zip(args, sig[:-1]):
            if s_ == 'rec':
                ts.append(a.t)
            elif s_ == 'packet':
                od = odict_of(I, a)
                ts += [od.t['has'], od.t['val']]
            elif s_ == 'smap':
                ts += [a.t['has'], a.t['val']]
            elif s_ == 'cur':
                if a.kind == 'none':
                    ts += [z3.IntVal(0), z3.RealVal(0)]
                elif a.kind in ('int', 'bool'):
                    ts += [z3.IntVal(1), z3.ToReal(as_int_term(a))]
                elif a.kind == 'real':
                    ts += [z3.IntVal(2), a.t]
                else:
                    raise OutOfSubset(f"current value of kind {a.kind}")
            elif s_ == 'bytes':
                ts.append(I.as_bytes(a))
            elif s_ == 'real':
                ts.append(as_real_term(a))
            elif s_ == 'int':
                ts.append(as_int_term(a))
            else:
                ts.append(a.t)
        return ts

    # ---- frames / globals ------------------------------------------------------------------------------------
    def global_frame(self, I, module):
        if module not in self._frames:
            self._frames[module] = Frame(module=module)
        return self._frames[module]

    def contract_for(self, qual):
        return self.contracts.get(qual)

    def is_self_inline(self, I, qual):
        return False

    def loop_spec(self, I, key, n):
        con = I.contract
        if con is None:
            return None
        tgt = con.target
        if key == tgt or key is None:
            suffix = ''
        elif key.startswith(tgt + '.'):
            suffix = key[len(tgt) + 1:]
        else:
            suffix = key
        return con.loops.get((suffix, n)) or (con.loops.get(n) if suffix == '' else None)

    def resolve_global(self, I, name, frame):
        from .calls import BUILTIN_NAMES
        mod = frame.module
        if I.spec or mod in ('ghost', '__spec__'):
            if name == 'result' or name in SPEC_PRIM_NAMES:
                return SV('func', BuiltinRef('spec:' + name))
            if name in self.oracles:
                return SV('func', Closure(self.oracles[name], Frame(module='__spec__'), 'spec.' + name, '__spec__'))
            if name in self.opaque_defs and I.contract is not None and name in I.contract.reveal:
                # revealed: the definition is inlined in this proof (everywhere else the function stays opaque)
                return SV('func', Closure(self.opaque_defs[name], Frame(module='__spec__'), 'spec.' + name, '__spec__'))
            if name in self.uninterp:
                return SV('func', BuiltinRef('uninterp:' + name))
            if name in self.axiom_schemas:
                return SV('func', BuiltinRef('axiom:' + name))
            if name in ('True', 'False'):
                return mk_bool(name == 'True')
        if mod in self.world.modules:
            mi = self.world.modules[mod]
            if name in mi.functions:
                return SV('func', Closure(mi.functions[name], self.global_frame(I, mod), f"{mod}.{name}", mod))
            if name in mi.classes:
                return SV('cls', mi.classes[name].qual)
            if name in mi.assigns:
                f = _namedtuple_fields(mi.assigns[name])
                if f is not None:
                    return SV('cls', f"{mod}.{name}")
                return I.eval(mi.assigns[name], self.global_frame(I, mod))
            if name in mi.imports:
                imp = mi.imports[name]
                if imp[0] == 'mod':
                    pm = self.world.pkg_module(imp[1])
                    if pm is not None:
                        return SV('pkgmod', pm)
                    return SV('ext', imp[1], extra={})
                modname, attr = imp[1], imp[2]
                pm = self.world.pkg_module(modname)
                if pm is not None:
                    sub = (pm + '.' + attr).lstrip('.')
                    if sub in self.world.modules:
                        return SV('pkgmod', sub)
                    if pm in self.world.modules:
                        return self.resolve_global(I, attr, self.global_frame(I, pm))
                return SV('ext', f"{modname}.{attr}", extra={})
        if name in self.world.exc_bases:
            return SV('cls', name)
        if name in ('int', 'float', 'str', 'bytes', 'bool', 'dict', 'list', 'tuple', 'type', 'set', 'object'):
            return SV('cls', name)
        if name in BUILTIN_NAMES:
            return SV('func', BuiltinRef(name))
        if name == 'NotImplemented':
            from .sv import NOTIMPL
            return NOTIMPL
        if name in self.namedtuples:
            return SV('cls', name)
        return None

    # ---- externals: delegated to pyvc.externals --------------------------------------------------------------
    def ext_attr(self, I, obj, attr, node):
        h = self.ext_models.get('attr')
        return h(I, obj, attr, node)

    def ext_call(self, I, fsv, args, kwargs, node):
        return self.ext_models['call'](I, fsv, args, kwargs, node)

    def ext_isinstance(self, I, x, tname, node):
        return self.ext_models['isinstance'](I, x, tname, node)

    def ext_getitem(self, I, obj, key, node):
        return self.ext_models['getitem'](I, obj, key, node)

    def ext_setitem(self, I, obj, key, v, node):
        return self.ext_models['setitem'](I, obj, key, v, node)

    def model_open(self, I, call_node, frame):
        return self.ext_models['open'](I, call_node, frame)

    def havoc_ghost(self, I, g):
        return self.ext_models['havoc_ghost'](I, g)

    def view_sequence(self, I, seq, node):
        return self.ext_models['view_sequence'](I, seq, node)

    def slist_slice(self, I, obj, lo, hi, node):
        from . import lists
        return lists.slist_slice(I, obj, lo, hi, node)

    def slist_minmax(self, I, seq, is_min, node):
        from . import lists
        return lists.slist_minmax(I, seq, is_min, node)

    def slist_index(self, I, seq, x, node):
        from . import lists
        return lists.slist_index(I, seq, x, node)

    def symbolic_all_any(self, I, gnode, frame, seq, is_all, node):
        from . import lists
        return lists.symbolic_all_any(I, gnode, frame, seq, is_all, node)

    def symbolic_sum(self, I, gnode, frame, seq, node):
        from . import lists
        return lists.symbolic_sum(I, gnode, frame, seq, node)

    def filtered_comprehension(self, I, node, frame, seq):
        raise OutOfSubset("filtered comprehension over a symbolic sequence")


def _freeze(ty):
    if isinstance(ty, list):
        return tuple(_freeze(x) for x in ty)
    if isinstance(ty, tuple):
        return tuple(_freeze(x) for x in ty)
    return ty


def _thaw(ty):
    if isinstance(ty, tuple) and ty and ty[0] == 'rec' and isinstance(ty[1], tuple):
        return ('rec', list(ty[1]))
    return ty


def _namedtuple_fields(expr):
    if isinstance(expr, ast.Call) and ast.unparse(expr.func).split('.')[-1] == 'namedtuple' and len(expr.args) == 2:
        try:
            f = ast.literal_eval(expr.args[1])
            if isinstance(f, str):
                f = f.replace(',', ' ').split()
            return list(f)
        except Exception:
            return None
    return None


# ---------------------------------------------------------------------------------------------------------------------
# spec evaluation
# ---------------------------------------------------------------------------------------------------------------------

_parse_cache = {}


def parse_expr(s):
    if s not in _parse_cache:
        _parse_cache[s] = ast.parse(s.strip(), mode='eval').body
    return _parse_cache[s]


def eval_spec_value(I, expr, frame):
    saved = I.spec
    saved_fr = getattr(I, 'spec_frame', None)
    I.spec = True
    I.spec_frame = frame
    try:
        return I.eval(parse_expr(expr), frame)
    finally:
        I.spec = saved
        I.spec_frame = saved_fr


def eval_spec(I, expr, frame, label=''):
    try:
        v = eval_spec_value(I, expr, frame)
        return I.truth(v)
    except StaleContract as e:
        raise StaleContract(f"{label}: {e}")
    except SymRaise as e:
        raise StaleContract(f"{label}: spec expression raised {e}")


def add_hints(I, hints, frame):
    for h in hints:
        t = eval_spec(I, h, frame, 'hint')
        I.path.hints.append(t)


def reachable_mobjs(sv, acc=None, prefix=''):
    acc = acc if acc is not None else {}
    if sv is None:
        return acc
    if sv.kind == 'mobj':
        if id(sv.t) in acc:
            return acc
        acc[id(sv.t)] = (sv.t, prefix)
        for f, v in sv.t.fields.items():
            reachable_mobjs(v, acc, f"{prefix}.{f}")
    elif sv.kind in ('tuple', 'clist'):
        for i, x in enumerate(sv.t):
            reachable_mobjs(x, acc, f"{prefix}[{i}]")
    return acc


def snapshot(svs):
    snap = {}
    for name, sv in svs.items():
        for oid, (m, pre) in reachable_mobjs(sv, None, name).items():
            snap[oid] = dict(m.fields)
    return snap


def havoc_location(I, path_expr, frame):
    """Havoc a location written as a dotted path, e.g. 'self.pos' or 'packet.raw_data.pos' or 'packet.items'."""
    parts = path_expr.split('.')
    cur = frame.lookup(parts[0])
    if cur is None:
        raise StaleContract(f"modifies clause names unknown {parts[0]}")
    for p in parts[1:-1]:
        if cur.kind != 'mobj' or p not in cur.t.fields:
            raise StaleContract(f"modifies clause path {path_expr} does not resolve at {p}")
        cur = cur.t.fields[p]
    last = parts[-1]
    if cur.kind != 'mobj':
        raise StaleContract(f"modifies clause path {path_expr}: not a mutable object")
    if last == 'items':
        last = '__items__'
    if last not in cur.t.fields:
        raise StaleContract(f"modifies clause path {path_expr}: no field {last}")
    from .loops import havoc_value
    cur.t.fields[last] = havoc_value(I, cur.t.fields[last], path_expr)


def coerce_arg(I, v, ty, node, what):
    """Adapt an actual argument to a declared parameter type; returns None when kinds are incompatible."""
    if ty == 'any':
        return v
    if ty == 'bytes':
        if I.is_byteslike(v):
            return mk_bytes(I.as_bytes(v))
        return None
    if ty == 'int':
        if v.kind == 'int':
            return v
        if v.kind == 'bool':
            return mk_int(as_int_term(v))
        return None
    if ty == 'real':
        return v if v.kind == 'real' else None
    if ty == 'num':
        return v if v.kind in ('int', 'real', 'bool') else None
    if ty == 'bool':
        return v if v.kind == 'bool' else None
    if ty == 'str':
        return v if v.kind == 'str' else None
    if ty == 'none':
        return v if v.kind == 'none' else None
    if isinstance(ty, tuple):
        if ty[0] == 'opt':
            if v.kind == 'none':
                return v
            return coerce_arg(I, v, ty[1], node, what)
        if ty[0] == 'mobj':
            if v.kind == 'mobj':
                ci = I.world.find_class(v.t.cls)
                if v.t.cls == ty[1] or (ci and I.world.class_is_subclass(ci, ty[1])):
                    return v
            return None
        if ty[0] == 'rec':
            if v.kind == 'mobj':
                v = freeze_mobj(I, v)
                if v is None:
                    return None
            if v.kind == 'rec':
                declared = [ty[1]] if isinstance(ty[1], str) else list(ty[1])
                actual = (v.extra or {}).get('classes') or []

                def fits(c):
                    ci = I.world.find_class(c)
                    return any(c == d_ or (ci is not None and I.world.class_is_subclass(ci, d_)) for d_ in declared)
                if actual and not all(fits(c) for c in actual):
                    # a union-typed value: accepted when the path condition (an isinstance test, a class-dispatched
                    # call) already confines it to the declared classes
                    inside = [TY.cls_of(v.t) == TY.class_id(c) for c in actual if fits(c)]
                    if not inside or I.path._feasible(z3.Not(z3.Or(*inside))):
                        return None
                return v
            return None
        if ty[0] == 'list':
            if v.kind == 'slist':
                return v
            return None
        if ty[0] == 'union':
            for t in ty[1]:
                r = coerce_arg(I, v, t, node, what)
                if r is not None:
                    return r
            return None
        if ty[0] == 'pval':
            if v.kind == 'valobj':
                if 'raw_value' not in v.t['attrs']:
                    return None
                b = v.t['base']
                v = SV(b.kind, b.t, cls=v.t['cls'], extra={'raw': v.t['attrs']['raw_value']})
            if v.cls in TY.PVAL_KINDS:
                names = [k if isinstance(k, str) else k[0] for k in ty[1]]
                return v if v.cls in names else None
            return None
        if ty[0] == 'source':
            if v.kind == 'ext' and v.t == 'source' and (v.extra or {}).get('source_kind') == ty[1]:
                return v
            return None
        if ty[0] in ('ext', 'func', 'cls', 'clsref'):
            return v
        if ty[0] == 'tuple':
            return v if v.kind == 'tuple' else None
    return None


def freeze_mobj(I, v):
    """An object built on this path by running its real constructor (a mutable object whose fields are known), handed
    to a contract that takes it as an immutable definition record: a fresh record constant of the same class whose
    schema fields of scalar type (and optional fields that are None) equal the object's CURRENT fields. Fields of other
    shapes are left unconstrained (fewer facts, never wrong ones); the record denotes the object's state at this call."""
    from .objects import accessor, isnone_fn
    m = v.t
    ci = I.world.find_class(m.cls)
    if ci is None or I.world.builtin_base(ci) is not None:
        return None
    r = z3.Const(I.path.fresh_name('frozen_' + m.cls), TY.Obj)
    I.path.assume(TY.cls_of(r) == TY.class_id(m.cls))
    for attr in list(m.fields):
        decl = I.registry.field_decl(m.cls, attr)
        if decl is None:
            continue
        dcls, fty = decl
        fv = I.read_field(m, attr)
        if isinstance(fty, tuple) and fty[0] == 'opt':
            if fv.kind == 'none':
                I.path.assume(isnone_fn(dcls, attr)(r))
                continue
            I.path.assume(z3.Not(isnone_fn(dcls, attr)(r)))
            fty = fty[1]
        if fty in ('int', 'str', 'bool', 'real') and fv.kind == fty:
            I.path.assume(accessor(dcls, attr, TY.smt_sort(fty))(r) == fv.t)
    return SV('rec', r, cls=m.cls, extra={'classes': [m.cls]})


def bind_call_args(I, fn_node, args, kwargs, def_frame, node, skip_self=False):
    """Bind actuals to the real function's parameter names (defaults from the real AST)."""
    newf = Frame(parent=def_frame)
    clo = Closure(fn_node, def_frame, '?', def_frame.module if def_frame else None)
    I.bind_params(fn_node.args, list(args), dict(kwargs), newf, clo, node)
    return newf.vars


def capture_term(I, con_name, cname, cty, func_sv):
    """a variable captured by a closure that is only known as a function VALUE: an accessor of the function object"""
    from .objects import wrap_term
    acc = z3.Function(f"cap_{cname}", TY.Obj, TY.smt_sort(cty))
    return wrap_term(I, cty, acc(func_sv.extra['id']))


def _pure_result(I, con, returns, coerced):
    """the result of a function declared pure (no effects, a function of the VALUES of its arguments, e.g. a cached
    property of an immutable bytes object): one SMT function application per call site, so that repeated calls on the
    same value denote the same term"""
    if returns not in ('int', 'bool', 'real', 'bytes', 'str') or con.modifies:
        return None
    terms = []
    for pname in sorted(coerced):
        v = coerced[pname]
        if I.is_byteslike(v):
            terms.append(I.as_bytes(v))
        elif v.kind in ('int', 'bool', 'real', 'str'):
            terms.append(v.t)
        elif v.kind == 'rec':
            terms.append(v.t)
        elif v.kind == 'none':
            continue
        else:
            return None
    f = z3.Function('pure_' + con.target.replace('.', '_'), *([t.sort() for t in terms] + [TY.smt_sort(returns)]))
    return SV(returns, f(*terms))


def _raise_payload(con, exc, sf):
    """attributes of the exception object that the contract ties to arguments (ghost['raise_payload'][exc] = {attribute:
    parameter}); the callee's own proof carries the matching obligation"""
    spec = con.ghost.get('raise_payload', {}).get(exc, {})
    return {attr: sf.vars[pname] for attr, pname in spec.items()}


def apply_contract(I, con, args, kwargs, node, clo=None, constructing=None, result_builder=None, func_sv=None):
    """Replace a call by the callee's contract."""
    caller = I.fname
    callee = con.target
    found = I.world.find_function(callee)
    if found is None and clo is None and func_sv is not None and con.ghost.get('function_value'):
        # an ASSUMED contract on a function VALUE stored in a field (no definition of that name): positional binding to
        # the contract's own parameters
        pnames = [p_ for p_ in con.params if p_ not in con.captures]
        if kwargs or len(args) != len(pnames):
            raise OutOfSubset(f"call of the function value {callee} with other than its {len(pnames)} positional argument(s)")
        bound = dict(zip(pnames, args))
        fn_node = None
    else:
        if found is None and clo is None:
            raise StaleContract(f"contract target {callee} not found in source")
        fn_node = clo.node if clo is not None else found[2]
        def_frame = clo.frame if clo is not None else I.registry.global_frame(I, found[0])
        if constructing is not None:
            args = [SV('cls', constructing.qual)] + list(args[1:])
        bound = bind_call_args(I, fn_node, args, kwargs, def_frame, node)
    # choose the variant by actual kinds
    chosen = None
    for vname in con.variant_names():
        params, requires, ensures, raises, may_raise, returns = con.for_variant(vname)
        ok = True
        coerced = {}
        for pname, pty in params.items():
            if pname not in bound:
                if pname in con.captures:
                    continue
                raise StaleContract(f"{callee}: contract parameter {pname} is not a parameter of the real function")
            cv = coerce_arg(I, bound[pname], pty, node, pname)
            if cv is None:
                ok = False
                break
            coerced[pname] = cv
        if ok and vname and con.variants[vname].get('select'):
            # variants that differ by a condition on the arguments rather than by their kinds (e.g. the class of a
            # field): chosen when the condition holds on this path (forks when the path leaves it open)
            sfv = Frame(parent=Frame(module='__spec__'))
            sfv.module = '__spec__'
            sfv.vars.update(coerced)
            sel = eval_spec(I, con.variants[vname]['select'], sfv, f"{callee} select[{vname}]")
            if not I.path.decide(sel):
                ok = False
        if ok:
            chosen = (vname, params, requires, ensures, raises, may_raise, returns, coerced)
            break
    if chosen is None:
        kinds = {k: (v.kind, v.cls) for k, v in bound.items()}
        I.path.oblige(f"{caller}:call:{callee}:pre:types", z3.BoolVal(False),
                      note=f"no contract variant of {callee} accepts argument kinds {kinds} (line {getattr(node, 'lineno', '?')})")
        raise PathEnd('ill-typed call')
    vname, params, requires, ensures, raises, may_raise, returns, coerced = chosen
    sf = Frame(parent=Frame(module='__spec__'))
    sf.module = '__spec__'
    for k, v in coerced.items():
        sf.vars[k] = v
    for cname, cty in con.captures.items():
        cv = clo.frame.lookup(cname) if clo is not None else None
        if cv is None and func_sv is not None:
            cv = capture_term(I, callee, cname, cty, func_sv)
        if cv is None:
            raise StaleContract(f"{callee}: captured variable {cname} not found")
        if clo is not None:
            cv2 = coerce_arg(I, cv, cty, node, cname)
            if cv2 is None:
                raise OutOfSubset(f"{callee}: captured variable {cname} of kind {cv.kind} does not fit {cty!r}")
            cv = cv2
        sf.vars[cname] = cv
    tag = f"{caller}:call:{callee}"
    for i, r in enumerate(requires):
        I.path.oblige(f"{tag}:pre:{i}", eval_spec(I, r, sf, f"{callee} requires[{i}]"),
                      note=f"line {getattr(node, 'lineno', '?')}: {r}")
    snap = snapshot(sf.vars)
    # exceptional outcomes
    for exc, cond in raises.items():
        c = eval_spec(I, cond, sf, f"{callee} raises[{exc}]")
        if I.path.decide(c):
            raise SymRaise(exc, _raise_payload(con, exc, sf), f"call {callee} line {getattr(node, 'lineno', '?')}")
    for exc, cond in may_raise.items():
        c = eval_spec(I, cond, sf, f"{callee} may_raise[{exc}]")
        m = z3.Bool(I.path.fresh_name(f"mayraise_{exc}"))
        if I.path.decide(z3.And(c, m)):
            raise SymRaise(exc, _raise_payload(con, exc, sf), f"call {callee} line {getattr(node, 'lineno', '?')}")
    # effects
    for loc in con.modifies:
        havoc_location(I, loc, sf)
    saved_old, saved_map = I.in_old, I.old_map
    I.old_map = snap
    if con.yields or (con.final and fn_node is not None and
                      any(isinstance(n_, (ast.Yield, ast.YieldFrom)) for n_ in ast.walk(fn_node))):
        # a generator under contract: the caller sees the list of everything it yields, constrained by the
        # generator's exhaustion clauses (`final`); the source is consumed
        saved_gd = I.ghost_defs
        gd = dict(con.ghost.get('defs', {}))
        if vname:
            gd.update(con.variants[vname].get('ghost_defs', {}))
        I.ghost_defs = gd
        try:
            ety = con.ghost.get('yield_type', 'bytes')
            lt = TY.list_theory(TY.smt_sort(ety))
            out = SV('slist', z3.Const(I.path.fresh_name('yielded_' + callee.split('.')[-1]), lt.sort), extra={'elem': ety})
            saved_y = I.path.yielded
            I.path.yielded = out
            sf.vars['out'] = out
            for name, e in list(ensures.items()) + list(con._filter(con.final, None).items()):
                I.path.assume(eval_spec(I, e, sf, f"{callee} final[{name}]"))
            add_hints(I, con.hints, sf)
            I.path.yielded = saved_y
        finally:
            I.ghost_defs = saved_gd
            I.in_old, I.old_map = saved_old, saved_map
        return SV('gen', out, extra={'contract': con, 'frame': sf})
    ev_saved = None
    if con.ghost.get('events'):
        # the callee appends to the ghost event log: its ensures relate events() to events0() (= the log at the call)
        from .specprims import _events
        cur = _events(I)
        lt_e = TY.list_theory(TY.Obj)
        ev_saved = I.path.events0
        I.path.events0 = cur
        I.path.events = SV('slist', z3.Const(I.path.fresh_name('events'), lt_e.sort), extra=cur.extra)
    try:
        if result_builder is not None:
            res = result_builder(sf.vars.get('value'), None)
        elif returns is None or returns == 'none':
            res = NONE
        elif isinstance(returns, tuple) and returns[0] == 'arg':
            res = sf.vars[returns[1]]          # the (modified) argument object itself
        else:
            res = _pure_result(I, con, returns, coerced) if con.pure else None
            if res is None:
                res = I.fresh(_thaw(returns) if not isinstance(returns, str) else returns, 'ret_' + callee.split('.')[-1])
        sf.vars['result'] = res
        for name, e in ensures.items():
            I.path.assume(eval_spec(I, e, sf, f"{callee} ensures[{name}]"))
        add_hints(I, con.hints, sf)
    finally:
        I.in_old, I.old_map = saved_old, saved_map
        if ev_saved is not None or con.ghost.get('events'):
            I.path.events0 = ev_saved if ev_saved is not None else I.path.events0
    return res
