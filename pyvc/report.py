"""Verdict policy, replay files, known findings, baseline, evidence."""
import hashlib
import json
import os
import re
import time
import z3

VERIF = os.path.dirname(os.path.dirname(os.path.abspath(__file__)))
BASELINE = os.path.join(VERIF, 'baseline', 'obligations.json')
KNOWN = os.path.join(VERIF, 'known_findings.json')

SEMANTICS = {
    'S1': "int is the mathematical integers; // and % floor; >> << by non-negative counts are //2**k and *2**k; a negative count raises ValueError",
    'S2': "bytes is a finite sequence of ints in [0,255]; slices with step 1 clamp; int.from_bytes/to_bytes are the base-256 value (OverflowError iff out of range)",
    'S3': "float is modelled as the reals (exact comparisons; NaN/inf excluded where floats are computed with); rounding is not verified",
    'S4': "str is an SMT string where needed, else opaque with equality; codecs are uninterpreted functions of (bytes, codec name)",
    'S5': "dict preserves insertion order; re-assigning a key keeps its position",
    'S6': "left-to-right evaluation; and/or short-circuit; all/any stop at the first decisive element",
    'S7': "distinct parameters / freshly constructed objects do not alias; class-level constants are resolved through the MRO read from the class ASTs",
    'S8': "a generator is a loop appending each yielded value to a ghost list; nothing it reads changes between yield and resumption except through its own source",
    'S9': "exceptions modelled: those the modelled operations raise plus the repository's classes; MemoryError/RecursionError/KeyboardInterrupt are not",
    'S10': "dynamic typing by monomorphisation: each contract lists the sorts a parameter may have and is verified once per combination",
}


def load_known_findings():
    if not os.path.exists(KNOWN):
        return {'findings': [], 'fixed': []}
    return json.load(open(KNOWN))


def apply_known_exclusions(reg, known, pid):
    """A recorded (unrepaired) finding is carved out of the proof as an explicit extra precondition of the named
    contract, so that everything outside the recorded input class is still proved and still alarms."""
    for f in known.get('findings', []):
        if f.get('property') != pid and pid not in f.get('also_properties', []):
            continue
        con = reg.contracts.get(f['target'])
        if con is None:
            continue
        excl = f.get('exclude')
        if excl:
            con.requires.append(f"not ({excl})")
            con.note += f" [known finding {f['id']} carved out: not ({excl})]"


def property_lemmas(reg, pid):
    """Lemmas over contracts (no code) declared in /verif/contracts/lemmas.py."""
    try:
        from pyvc import lemmas
    except ImportError:
        return []
    return lemmas.obligations_for(reg, pid)


def load_baseline():
    if os.path.exists(BASELINE):
        return json.load(open(BASELINE))
    return {}


def ob_key(ob):
    return f"{ob.name}[{ob.variant}]" if ob.variant else ob.name


def safe(s):
    return re.sub(r'[^A-Za-z0-9_.-]+', '_', s)[:150]


def match_known(known, pid, clause_key, recipe):
    for f in known.get('findings', []):
        if f.get('property') != pid and pid not in f.get('also_properties', []):
            continue
        if f.get('clause') and not clause_key.startswith(f['clause']):
            continue
        pred = f.get('match')
        if pred is None:
            return f
        try:
            if eval(pred, {'r': recipe}):
                return f
        except Exception:
            continue
    return None


def conclude(pid, tier, seed, prop, reg, funcs, all_obs, results, texts, native, known, times, args):
    baseline = load_baseline().get(pid, {})
    base_keys = set(baseline.get('discharged', []))
    per_backend = {}
    solver_time = 0.0
    ob_rows = []
    by_key = {}
    for i, (r, ob) in enumerate(all_obs):
        v = results[i]
        k = ob_key(ob)
        solver_time += v['seconds']
        ent = by_key.setdefault(k, dict(key=k, vcs=0, discharged=0, backends=set(), failed=[], target=r.target if r else 'lemma',
                                        variant=ob.variant))
        ent['vcs'] += 1
        if v['verdict'] == 'unsat':
            ent['discharged'] += 1
            ent['backends'].add(v['backend'])
            per_backend[v['backend']] = per_backend.get(v['backend'], 0) + 1
        else:
            ent['failed'].append(dict(verdict=v['verdict'], detail=v['detail'][:1500], attempts=v['attempts'],
                                      note=ob.note, smt2_sha=v.get('smt2_sha')))
    # functions not decided by proof
    bounded = []
    undecided_funcs = []
    for r in funcs:
        if r.status != 'ok':
            undecided_funcs.append(r)
    violations = []
    known_lines = []
    disagreements = [v for v in results.values() if v['verdict'] == 'disagree']
    # ---- native results ---------------------------------------------------------------------------------------
    native_evals = 0
    native_cover = {}
    native_witness = {}      # (target, variant) -> list of violation dicts
    native_errors = []
    for (target, variant), out in native.items():
        native_evals += out.get('accepted', 0)
        native_cover[(target, variant)] = out.get('accepted', 0)
        if out.get('error') or out.get('harness_errors'):
            native_errors.append(f"{target}[{variant}]: {out.get('error') or out.get('harness_errors')}")
        if out.get('violations'):
            native_witness[(target, variant)] = out['violations']
    import shutil
    shutil.rmtree(os.path.join(VERIF, 'replays', pid), ignore_errors=True)
    os.makedirs(os.path.join(VERIF, 'replays', pid), exist_ok=True)

    def write_replay(name, payload):
        path = os.path.join(VERIF, 'replays', pid, safe(name) + '.json')
        with open(path, 'w') as fh:
            json.dump(payload, fh, indent=1, default=str)
        return path

    from checks.check import contracts_module_of
    # 1) witnesses from the native side: real inputs on which the real code breaks a contract clause
    reported_targets = set()
    for (target, variant), wits in native_witness.items():
        by_clause = {}
        for w in wits:
            by_clause.setdefault(w['clause'], []).append(w)
        for clause, ws in by_clause.items():
            unknown_ws = []
            for w in ws:
                kf = match_known(known, pid, clause, w.get('case'))
                if kf is not None:
                    line = f"KNOWN-FINDING: property={pid} {kf['id']}: {kf['what']}"
                    if line not in known_lines:
                        known_lines.append(line)
                else:
                    unknown_ws.append(w)
            if unknown_ws:
                w = unknown_ws[0]
                path = write_replay(clause + ('[' + variant + ']' if variant else ''), dict(
                    property=pid, obligation=clause, target=target, variant=variant,
                    contracts_module=contracts_module_of(reg, target), recipe=w.get('case'), input=w.get('input'),
                    observed=w.get('why'), required=clause_text(reg, target, clause),
                    replay_cmd=f"/venv/bin/python {VERIF}/pyvc/native.py replay <this file>",
                    solver=[f for e in by_key.values() if e['target'] == target for f in e['failed']][:3]))
                violations.append((clause, path, ''))
                reported_targets.add((target, variant))
    # 2) failed obligations without a replayed witness
    for k, ent in sorted(by_key.items()):
        if not ent['failed']:
            continue
        tv = (ent['target'], ent['variant'])
        if tv in reported_targets:
            # the function also has a failing input from the native side: the failed obligation is reported by name,
            # with that input as its replayable witness
            if k in base_keys or not base_keys:
                w = [x for x in native_witness[tv] if not match_known(known, pid, x['clause'], x.get('case'))][0]
                path = write_replay(k, dict(
                    property=pid, obligation=k, target=ent['target'], variant=ent['variant'],
                    contracts_module=contracts_module_of(reg, ent['target']), recipe=w.get('case'), input=w.get('input'),
                    observed=w.get('why'), witness_clause=w['clause'], failed_vcs=ent['failed'][:3],
                    note="obligation discharged on the unchanged tree is no longer discharged; the failing input was "
                         "found by the native search on the same function (it falsifies the clause named under "
                         "witness_clause when replayed)",
                    replay_cmd=f"/venv/bin/python {VERIF}/pyvc/native.py replay <this file>"))
                violations.append((k, path, ''))
            continue
        # is every witness of this function a known finding?  then the failed obligation is explained
        if tv in native_witness and all(match_known(known, pid, w['clause'], w.get('case')) for w in native_witness[tv]):
            continue
        if k in base_keys or not base_keys:
            path = write_replay(k, dict(property=pid, obligation=k, target=ent['target'], variant=ent['variant'],
                                        recipe=None, failed_vcs=ent['failed'],
                                        note="obligation discharged on the unchanged tree (baseline) is no longer "
                                             "discharged; the native search found no failing input within its bound",
                                        native=native.get(tv, {}).get('bound')))
            violations.append((k, path, ' no-failing-input-found'))
        else:
            bounded.append(dict(function=ent['target'], clause=k, reason='obligation not in baseline and not discharged',
                                bound=native.get(tv, {}).get('bound'), cases=native.get(tv, {}).get('accepted', 0)))
    for r in undecided_funcs:
        tv = (r.target, r.variant)
        bounded.append(dict(function=r.target, variant=r.variant, reason=f"{r.status}: {r.message}",
                            bound=native.get(tv, {}).get('bound'), cases=native.get(tv, {}).get('accepted', 0)))
        # a function that was proved on the unchanged tree and is now outside the subset: its baseline obligations
        # are no longer discharged
        lost = sorted(k for k in base_keys if k.startswith(r.target + ':') and (not r.variant or k.endswith(f'[{r.variant}]')))
        if lost and tv not in reported_targets and tv not in native_witness:
            print(f"UNDECIDED property={pid} function={r.target} [{r.variant}] {r.status}: {r.message}; "
                  f"{len(lost)} baseline obligations not re-established; bounded stand-in found no failing input "
                  f"in {native.get(tv, {}).get('accepted', 0)} cases")
    # ---- vacuity ------------------------------------------------------------------------------------------------
    total_obs = sum(e['vcs'] for e in by_key.values())
    checker_errors = []
    if total_obs == 0 and not bounded:
        checker_errors.append('zero obligations generated')
    if disagreements:
        checker_errors.append(f'{len(disagreements)} back-end disagreements')
    for r in funcs:
        if r.status == 'ok' and r.outcomes.get('return', 0) == 0 and not any(o.startswith('raise') for o in r.outcomes) \
                and not any(k.startswith('end') and 'no feasible branch' not in k for k in r.outcomes):
            checker_errors.append(f'{r.target}[{r.variant}]: no path reaches an exit (contradictory preconditions?)')
    for tv, n in native_cover.items():
        if n == 0 and not native.get(tv, {}).get('error'):
            checker_errors.append(f'{tv[0]}[{tv[1]}]: native generator produced no input satisfying requires (vacuous cover)')
    checker_errors += native_errors
    # ---- output -------------------------------------------------------------------------------------------------
    discharged_keys = sorted(k for k, e in by_key.items() if not e['failed'])
    if args.write_baseline:
        b = load_baseline()
        b[pid] = dict(discharged=discharged_keys)
        os.makedirs(os.path.dirname(BASELINE), exist_ok=True)
        json.dump(b, open(BASELINE, 'w'), indent=0, sort_keys=True)
    for line in known_lines:
        print(line)
    for k, path, suffix in violations:
        print(f"VIOLATION property={pid} replay={path}{suffix}")
    for b_ in bounded:
        print(f"BOUNDED-ONLY property={pid} {b_.get('function')} {b_.get('reason')}")
    for ce in checker_errors:
        print(f"CHECKER-ERROR property={pid} {ce}")
    n_dis = sum(e['discharged'] for e in by_key.values())
    samples = []
    for i, (r, ob) in enumerate(all_obs[:400]):
        if len(samples) >= 6:
            break
        if results[i]['backend'] != 'trivial' and not any(s['obligation'] == ob_key(ob) for s in samples):
            samples.append(dict(obligation=ob_key(ob), goal=getattr(ob, 'goal_str', '?'), path_conditions=getattr(ob, 'npc', 0),
                                smt2_bytes=results[i].get('size'), verdict=results[i]['verdict'],
                                backend=results[i]['backend'], seconds=round(results[i]['seconds'], 3)))
    trusted = trusted_base(reg, funcs)
    level = 'proof' if n_dis > 0 else 'exploration'
    try:
        man = json.load(open(os.path.join(VERIF, 'MANIFEST.json')))
        for chk in man.get('checks', []):
            if chk['property_id'] == pid:
                level = chk['level_claimed']['category']
    except Exception:
        pass
    if level == 'proof' and n_dis == 0:
        level = 'exploration'
    native_distinct = sum(o.get('distinct_accepted', 0) for o in native.values())
    native_samples = []
    for (t_, v_), o in sorted(native.items()):
        for smp in o.get('samples', [])[:1]:
            native_samples.append(dict(function=t_, variant=v_, recipe=smp))
    evidence = dict(
        property_id=pid, tier=tier, seed=seed, level=level,
        coverage=dict(
            obligations=(total_obs if violations else n_dis), discharged=n_dis,
            undischarged_vcs_moved_to_bounded=(0 if violations else total_obs - n_dis),
            distinct_named_obligations=len(by_key),
            checker_cmd=f"python3-vt checks/check.py {pid} --tier {tier}",
            trusted_base=trusted,
            functions_under_contract=sorted({f"{r.target}[{r.variant}]" if r.variant else r.target for r in funcs}),
            functions_proved=sorted({f"{r.target}[{r.variant}]" if r.variant else r.target for r in funcs
                                     if r.status == 'ok' and not any(by_key[ob_key(o)]['failed'] for o in r.obligations)}),
            paths_explored=sum(r.paths for r in funcs),
            per_backend=per_backend,
            solver_time_s=round(solver_time, 3),
            wall_breakdown_s={k: round(v, 2) for k, v in times.items()},
            bounded=bounded,
            native_cover=dict(evaluations=native_evals,
                              per_function={f"{t}[{v}]" if v else t: n for (t, v), n in native_cover.items()},
                              note="real functions run under /venv/bin/python on generated inputs with the same contract "
                                   "clauses evaluated as Python: reachability witness for every precondition and "
                                   "CPython cross-check of the contracts; bounded, never counted as proof"),
            samples=samples if n_dis > 0 else native_samples[:6],
            evaluations=native_evals, distinct_nontrivial=native_distinct,
            rule=('bounded stand-in: the real functions run under /venv/bin/python on inputs produced by the generators '
                  'declared next to each contract (bounds quoted per function under `bounded`); an input is counted when it '
                  'satisfies the contract\'s requires; distinct = distinct generator recipes (SHA-1 of the recipe)'),
            known_findings=known_lines,
            vacuity=dict(zero_obligations=(total_obs == 0), checker_errors=checker_errors),
            source_files={m: hashlib.sha256(mi.source.encode()).hexdigest()[:16] for m, mi in reg.world.modules.items()},
        ),
        assumptions=[f"{k}: {v}" for k, v in SEMANTICS.items()] + trusted + [c.note for c in reg.contracts.values() if pid in c.props and c.note],
        wall_s=round(time.time() - (time.time() - times['total']), 3) and round(times['total'], 3),
        violations=len(violations),
    )
    os.makedirs(os.path.join(VERIF, 'evidence'), exist_ok=True)
    with open(os.path.join(VERIF, 'evidence', f'{pid}.json'), 'w') as fh:
        json.dump(evidence, fh, indent=1, default=str)
    print(f"{pid} [{tier}] functions={len(funcs)} obligations={total_obs} discharged={n_dis} "
          f"named={len(by_key)} bounded={len(bounded)} native_cases={native_evals} violations={len(violations)} "
          f"known={len(known_lines)} wall={times['total']:.1f}s (symex {times['symex']:.1f} solve {times['solve']:.1f} native {times['native']:.1f})")
    if violations:
        return 1
    if checker_errors:
        return 3
    return 0


def clause_text(reg, target, clause):
    con = reg.contracts.get(target)
    if con is None:
        return None
    parts = clause[len(target) + 1:].split(':')
    if parts[0] == 'post' and len(parts) > 1:
        return con.ensures.get(parts[1])
    if parts[0] == 'raises' and len(parts) > 1:
        return f"raises {parts[1]} iff {con.raises.get(parts[1], con.may_raise.get(parts[1]))}"
    if parts[0] == 'noexc':
        return f"no {parts[1]} may escape (declared: {sorted(set(con.raises) | set(con.may_raise))})"
    return None


def trusted_base(reg, funcs):
    """assumptions about code outside /repo that the contracts in this property's tree rest on (derived from the
    contracts themselves: the symbolic execution runs in worker processes)"""
    from pyvc import externals
    out = []
    used = set(getattr(externals, 'USED', set()))
    targets = {r.target for r in funcs}
    cons = [reg.contracts[t] for t in targets if t in reg.contracts]

    def mentions(con, what):
        return what in repr(con.params) or any(what in repr(v.get('params')) for v in con.variants.values())
    if any(mentions(c, "'source'") for c in cons):
        used.add('E1')
    if any(t.endswith('ieee_parse_func') or t.endswith('FloatDataEncoding.parse_func') for t in targets):
        used.add('E2')
    if any('decode(' in repr(c.ensures) or 'StringDataEncoding.parse_value' in c.target for c in cons):
        used.add('E4')
    if any(c.pure for c in cons):
        used.add('E11')
    for k in sorted(used):
        out.append(externals.TRUSTED.get(k, k))
    for c in sorted(cons, key=lambda c_: c_.target):
        if c.native_only:
            out.append(f"contract not discharged by proof ({c.target}): {c.native_only}")
    out.append("theory axioms of pyvc/theory.py (each stated as a Lean theorem in lean/PyVC.lean where arithmetic, and "
               "tested against the executable definitions in specs/prims.py by pyvc/conformance.py)")
    out.append("z3 5.1 / cvc5 1.0 / z3 4.8 soundness")
    return out
