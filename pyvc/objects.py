"""Attribute access, subscripts, slices and the packet item mapping."""
import ast
import z3

from . import theory as T
from . import tys as TY
from .sv import (SV, NONE, MObj, Closure, BoundMethod, BuiltinRef, OutOfSubset, mk_int, mk_bool, mk_real, mk_str,
                 mk_bytes)
from .interp import as_int_term, const_int

_accessors = {}


def accessor(cls, fld, sort):
    key = (cls, fld)
    if key not in _accessors:
        _accessors[key] = z3.Function(f"fld_{cls}_{fld}", TY.Obj, sort)
    return _accessors[key]


def isnone_fn(cls, fld):
    key = (cls, fld, 'isnone')
    if key not in _accessors:
        _accessors[key] = z3.Function(f"isnone_{cls}_{fld}", TY.Obj, z3.BoolSort())
    return _accessors[key]


def wrap_term(I, ty, term):
    """SV for an SMT term of type descriptor ty (ty not optional)."""
    if ty in ('int', 'bool', 'real', 'str', 'bytes'):
        return SV(ty, term)
    if isinstance(ty, tuple):
        if ty[0] == 'rec':
            classes = list(ty[1]) if isinstance(ty[1], (list, tuple)) else [ty[1]]
            sv = SV('rec', term, cls=classes[0] if len(classes) == 1 else None, extra={'classes': list(classes)})
            fact = z3.Or(*[TY.cls_of(term) == TY.class_id(c) for c in classes])
            I.path.hints.append(fact) if not any(fact.eq(h) for h in I.path.hints) else None
            return sv
        if ty[0] == 'list':
            return SV('slist', term, extra={'elem': ty[1]})
        if ty[0] == 'pval':
            return unpack_pval(I, term, ty[1])
        if ty[0] == 'func':
            return SV('func', BuiltinRef('contractfunc:' + ty[1]), extra={'contract': ty[1], 'id': term})
        if ty[0] == 'bobj':
            from .loops import bytes_object
            return bytes_object(I, ty[1], term)
    raise OutOfSubset(f"cannot wrap term of type {ty!r}")


def elem_term(I, ety, v, node=None):
    """the SMT term under which value v is stored as an element of a symbolic list of element type ety"""
    if isinstance(ety, tuple) and ety[0] == 'bobj':
        if not I.is_byteslike(v):
            raise OutOfSubset(f"element of kind {v.kind} in a list of {ety[1]}")
        if v.kind == 'mobj':
            pos = v.t.fields.get('pos')
            if pos is not None and const_int(as_int_term(pos)) != 0:
                raise OutOfSubset("a packet whose cursor has moved stored in a list (only its bytes are kept)")
        return I.as_bytes(v)
    if isinstance(ety, tuple) and ety[0] == 'list':
        return as_slist(I, v, ety[1], node).t
    if ety == 'int':
        return as_int_term(v)
    return v.t


def as_slist(I, v, ety, node=None):
    """a concrete or symbolic list as a symbolic list of element type ety"""
    lt = TY.list_theory(TY.smt_sort(ety))
    if v.kind == 'slist':
        return v
    if v.kind in ('clist', 'tuple'):
        t = lt.lempty
        for e in v.t:
            t = lt.lapp(t, elem_term(I, ety, e, node))
        return SV('slist', t, extra={'elem': ety})
    if v.kind == 'lslice':
        raise OutOfSubset("copy of a list slice")
    raise OutOfSubset(f"{v.kind} where a list is expected")


def mdict_key(I, d, key, node):
    kt = d.extra['key']
    if kt == 'int' and key.kind in ('int', 'bool'):
        return as_int_term(key)
    if kt == 'str' and key.kind == 'str':
        return key.t
    raise OutOfSubset(f"key of kind {key.kind} into a local dict keyed by {kt}")


def narrow_class(I, obj, node):
    """Fork on the class tag of a union-typed record; returns the narrowed SV."""
    classes = obj.extra['classes']
    if len(classes) == 1:
        return obj
    ch = I.path.branch(len(classes), [TY.cls_of(obj.t) == TY.class_id(c) for c in classes])
    return SV('rec', obj.t, cls=classes[ch], extra={'classes': [classes[ch]]})


def rec_field(I, obj, attr, node):
    """Read a schema field of an immutable record; returns None if attr is not a field."""
    reg = I.registry
    classes = obj.extra['classes']
    decl = set()
    for c in classes:
        d = reg.field_decl(c, attr)
        decl.add(d)
    if None in decl and len(decl) == 1:
        return None
    if I.spec and len(decl - {None}) == 1 and len(decl) > 1:
        # inside a spec the field accessor of the one class that declares it is used as a total function (the
        # surrounding expression guards it with cls_is); no narrowing, so that it can appear under quantifiers
        decl = decl - {None}
    elif len(decl) > 1 or None in decl:
        obj2 = narrow_class(I, obj, node)
        return rec_field(I, obj2, attr, node)
    dcls, fty = next(iter(decl))
    if isinstance(fty, tuple) and fty[0] == 'opt':
        if I.spec:
            inner = fty[1]
            return wrap_term(I, inner, accessor(dcls, attr, TY.smt_sort(inner))(obj.t))
        if I.path.decide(isnone_fn(dcls, attr)(obj.t)):
            return NONE
        fty = fty[1]
    if fty == 'none':
        return NONE
    if isinstance(fty, tuple) and fty[0] == 'smap':
        has = accessor(dcls, attr + '__has', z3.ArraySort(z3.StringSort(), z3.BoolSort()))(obj.t)
        val = accessor(dcls, attr + '__val', z3.ArraySort(z3.StringSort(), TY.Obj))(obj.t)
        return SV('smap', {'has': has, 'val': val}, extra={'elem': ('rec', fty[1])})
    if isinstance(fty, tuple) and fty[0] == 'kmap':
        # a dict field with keys of one scalar type: (has, val) arrays over the key sort
        ks, vs = TY.smt_sort(fty[1]), TY.smt_sort(fty[2])
        has = accessor(dcls, attr + '__has', z3.ArraySort(ks, z3.BoolSort()))(obj.t)
        val = accessor(dcls, attr + '__val', z3.ArraySort(ks, vs))(obj.t)
        return SV('kmap', {'has': has, 'val': val}, extra={'key': fty[1], 'elem': fty[2]})
    if isinstance(fty, tuple) and fty[0] == 'const':
        return I.eval(ast.parse(fty[1], mode='eval').body, I.registry.global_frame(I, 'common'))
    return wrap_term(I, fty, accessor(dcls, attr, TY.smt_sort(fty))(obj.t))


def class_member(I, ci, obj, attr, node, frame):
    """Look up attr on the class (MRO): methods, properties, class-level constants."""
    world = I.world
    found = world.find_method(ci, attr)
    if found is not None:
        dc, fn = found
        decos = dc.decorators.get(attr, [])
        clo = Closure(fn, I.registry.global_frame(I, dc.module), f"{dc.qual}.{attr}", dc.module, dc)
        if any(d in ('property', 'cached_property', 'functools.cached_property') for d in decos):
            from .calls import call_callable
            return call_callable(I, SV('func', BoundMethod(clo, obj)), [], {}, node)
        if 'staticmethod' in decos:
            return SV('func', clo)
        if 'classmethod' in decos:
            return SV('func', BoundMethod(clo, SV('cls', ci.qual)))
        if obj is None:
            return SV('func', clo)
        return SV('func', BoundMethod(clo, obj))
    ca = world.find_class_attr(ci, attr)
    if ca is not None:
        dc, expr = ca
        return I.eval(expr, class_body_frame(I, dc, expr))
    return None


def class_body_frame(I, dc, expr, depth=0):
    """Frame in which a class-level assignment's right-hand side is evaluated: the module's globals plus the class-level
    names the expression mentions (`_supported = _allowed[:3]`), each evaluated the same way (class bodies here are
    straight-line constant definitions; a name defined later in the body or rebound is out of the subset via the
    unresolved-name rule)."""
    import ast as _ast
    from .sv import Frame
    g = I.registry.global_frame(I, dc.module)
    names = [n.id for n in _ast.walk(expr) if isinstance(n, _ast.Name) and n.id in dc.attrs]
    if not names or depth > 4:
        return g
    fr = Frame(parent=g)
    for nm in names:
        if dc.attrs[nm] is not expr:
            fr.vars[nm] = I.eval(dc.attrs[nm], class_body_frame(I, dc, dc.attrs[nm], depth + 1))
    return fr


def get_attr(I, obj, attr, node, frame=None):
    k = obj.kind
    if k == 'mobj':
        m = obj.t
        if attr in m.fields:
            return I.read_field(m, attr)
        ci = I.world.find_class(m.cls)
        if ci is not None:
            r = class_member(I, ci, obj, attr, node, frame)
            if r is not None:
                return r
            bb = I.world.builtin_base(ci)
            if bb == 'bytes' and attr in ('decode', 'index', 'hex'):
                return SV('func', BuiltinRef('bytes.' + attr, SV('bytes', I.as_bytes(obj))))
            if bb == 'dict' and attr in ('items', 'keys', 'values', 'get'):
                return SV('func', BuiltinRef('dict.' + attr, obj))
        if I.spec:
            raise OutOfSubset(f"spec reads unknown attribute {attr} of {m.cls}")
        I.raise_('AttributeError', node)
    if k == 'rec':
        r = rec_field(I, obj, attr, node)
        if r is not None:
            return r
        if obj.cls is None:
            obj = narrow_class(I, obj, node)
        ci = I.world.find_class(obj.cls)
        if ci is not None:
            r = class_member(I, ci, obj, attr, node, frame)
            if r is not None:
                return r
        if attr == '__class__':
            return SV('cls', ci.qual if ci else obj.cls)
        I.oos(node, f"attribute {attr} of record {obj.cls}")
    if k == 'cls':
        ci = I.world.find_class(obj.t)
        if attr == '__name__':
            return mk_str(obj.t.split('.')[-1])
        if ci is not None:
            r = class_member(I, ci, None, attr, node, frame)
            if r is not None:
                return r
        if obj.t in ('int', 'bytes', 'float', 'str', 'bool', 'dict', 'list'):
            return SV('func', BuiltinRef(f"{obj.t}.{attr}"))
        I.oos(node, f"class attribute {obj.t}.{attr}")
    if k == 'ext':
        return I.registry.ext_attr(I, obj, attr, node)
    if k == 'pkgmod':
        r = I.registry.resolve_global(I, attr, I.registry.global_frame(I, obj.t))
        if r is None:
            I.oos(node, f"module attribute {obj.t}.{attr}")
        return r
    if k == 'valobj':
        if attr in obj.t['attrs']:
            return obj.t['attrs'][attr]
        I.raise_('AttributeError', node)
    if k == 'super':
        from .calls import method_of_super
        r = method_of_super(I, obj, attr, node)
        if r is None:
            I.oos(node, f"super().{attr}")
        return r
    # parsed parameter values
    if attr == 'raw_value' and obj.extra and ('raw' in obj.extra or 'rawterm' in obj.extra):
        if 'raw' in obj.extra:
            return obj.extra['raw']
        return unpack_raw(I, obj.extra['rawterm'], obj.extra.get('rawkinds'))
    if attr in ('__eq__', '__ne__', '__lt__', '__le__', '__gt__', '__ge__') and k in ('int', 'bool', 'real', 'str', 'bytes'):
        return SV('func', BuiltinRef('dunder:' + attr, obj))
    if k in ('int', 'bool') and attr in ('to_bytes', 'from_bytes', 'bit_length'):
        return SV('func', BuiltinRef('int.' + attr, obj))
    if k == 'real' and attr == 'is_integer':
        return SV('func', BuiltinRef('float.is_integer', obj))
    if k == 'bytes' and attr in ('decode', 'index', 'hex'):
        return SV('func', BuiltinRef('bytes.' + attr, obj))
    if k == 'str' and attr in ('lower', 'upper', 'startswith', 'endswith', 'replace', 'join', 'split'):
        return SV('func', BuiltinRef('str.' + attr, obj))
    if k == 'clist' and attr in ('append', 'index', 'extend'):
        return SV('func', BuiltinRef('list.' + attr, obj))
    if k == 'slist' and attr in ('index', 'append'):
        return SV('func', BuiltinRef('slist.' + attr, obj))
    if k == 'mdict' and attr in ('get', 'pop'):
        return SV('func', BuiltinRef('mdict.' + attr, obj))
    if k == 'exc' and attr in obj.t[1]:
        return obj.t[1][attr]
    if k == 'odict' and attr in ('items', 'keys', 'values', 'get'):
        return SV('func', BuiltinRef('dict.' + attr, obj))
    if k == 'func' and isinstance(obj.t, Closure) and attr == '__name__':
        return mk_str(obj.t.qualname.split('.')[-1])
    if k == 'none':
        if I.spec:
            raise OutOfSubset(f"spec reads attribute {attr} of None")
        I.raise_('AttributeError', node)
    if k == 'tuple' and obj.cls and I.registry.is_namedtuple(obj.cls):
        flds = I.registry.namedtuple_fields(obj.cls)
        if attr in flds:
            return obj.t[flds.index(attr)]
    if not I.spec and k in ('int', 'bool', 'real', 'bytes', 'str'):
        I.raise_('AttributeError', node)
    I.oos(node, f"attribute {attr} on {k}")


# ---- parsed values <-> PVal datatype -------------------------------------------------------------------------------

def pack_raw(I, raw):
    if raw.kind == 'bool':
        return TY.Raw.RInt(as_int_term(raw))
    if raw.kind in TY.RAW_KINDS:
        return TY.RAW_KINDS[raw.kind][0](raw.t)
    raise OutOfSubset(f"raw value of kind {raw.kind}")


def pack_pval(I, v, node=None):
    """PVal term for a parsed value SV (must carry its Parameter class)."""
    if v.cls not in TY.PVAL_KINDS:
        raise OutOfSubset(f"value stored in a packet is not a Parameter value ({v.kind}, cls={v.cls})")
    base, ctor, _, _, _ = TY.PVAL_KINDS[v.cls]
    if 'rawterm' in (v.extra or {}):
        rawt = v.extra['rawterm']
    else:
        rawt = pack_raw(I, v.extra['raw'])
    t = v.t
    if base == 'int' and v.kind == 'bool':
        t = as_int_term(v)
    return ctor(t, rawt)


def unpack_raw(I, rawterm, kinds=None):
    kinds = kinds or ['int', 'real', 'bytes', 'str']
    conds = [TY.RAW_KINDS[k][1](rawterm) for k in kinds]
    ch = I.path.branch(len(kinds), conds)
    k = kinds[ch]
    return SV(k, TY.RAW_KINDS[k][2](rawterm))


def unpack_pval(I, term, kinds=None, rawkinds=None):
    names = list(kinds) if kinds else list(TY.PVAL_KINDS)
    names = [n if isinstance(n, str) else n[0] for n in names]
    conds = [TY.PVAL_KINDS[n][2](term) for n in names]
    if kinds:
        # the contract's parameter type restricts the value classes stored in the packet (a type invariant of the input)
        I.path.assume(z3.Or(*conds))
    ch = I.path.branch(len(names), conds)
    n = names[ch]
    base, ctor, rec, val, rawf = TY.PVAL_KINDS[n]
    if rawkinds:
        I.path.assume(z3.Or(*[TY.RAW_KINDS[k][1](rawf(term)) for k in rawkinds]))
    return SV(base, val(term), cls=n, extra={'rawterm': rawf(term), 'rawkinds': rawkinds})


# ---- ordered packet mapping ----------------------------------------------------------------------------------------

def fresh_odict(I, base='items'):
    p = I.path
    has = z3.Array(p.fresh_name(base + '_has'), z3.StringSort(), z3.BoolSort())
    val = z3.Array(p.fresh_name(base + '_val'), z3.StringSort(), TY.PVal)
    lt = TY.list_theory(z3.StringSort())
    keys = z3.Const(p.fresh_name(base + '_keys'), lt.sort)
    return SV('odict', {'has': has, 'val': val, 'keys': keys})


def odict_of(I, sv):
    if sv.kind == 'odict':
        return sv
    if sv.kind == 'mobj' and '__items__' in sv.t.fields:
        return I.read_field(sv.t, '__items__')
    return None


def odict_len(I, sv):
    od = odict_of(I, sv)
    lt = TY.list_theory(z3.StringSort())
    return lt.llen(od.t['keys'])


def odict_has(I, od, key, node):
    if key.kind != 'str':
        return z3.BoolVal(False)
    return z3.Select(od.t['has'], key.t)


def get_item(I, obj, key, node):
    od = odict_of(I, obj)
    if od is not None:
        if key.kind != 'str':
            I.oos(node, "non-string packet key")
        if not I.spec:
            if not I.path.decide(z3.Select(od.t['has'], key.t)):
                I.raise_('KeyError', node)
        if I.spec and getattr(I, 'in_quant', False):
            return SV('pvalterm', z3.Select(od.t['val'], key.t))
        return unpack_pval(I, z3.Select(od.t['val'], key.t), od.extra.get('kinds') if od.extra else None,
                           od.extra.get('rawkinds') if od.extra else None)
    if obj.kind == 'smap':
        if key.kind != 'str':
            if key.kind == 'none' and not I.spec:
                I.raise_('KeyError', node)       # the maps are keyed by names: None is never a key
            I.oos(node, "non-string key into a name map")
        if not I.spec and not I.path.decide(z3.Select(obj.t['has'], key.t)):
            I.raise_('KeyError', node)
        return wrap_term(I, obj.extra['elem'], z3.Select(obj.t['val'], key.t))
    if obj.kind == 'mdict':
        kt = mdict_key(I, obj, key, node)
        if not I.spec and not I.path.decide(z3.Select(obj.t['has'], kt)):
            I.raise_('KeyError', node)
        v = wrap_term(I, obj.extra['elem'], z3.Select(obj.t['val'], kt))
        if v.kind == 'slist' and not I.spec:
            v.extra = dict(v.extra, backref=(obj, kt))       # d[k].append(x) updates the dict entry
        return v
    if obj.kind == 'lslice':
        base, lo_t, hi_t = obj.t
        lt = TY.list_theory(TY.smt_sort(base.extra['elem']))
        i = as_int_term(key)
        if not I.spec:
            if I.path.decide(z3.Or(i < 0, i >= hi_t - lo_t)):
                if I.path.decide(z3.Or(i < -(hi_t - lo_t), i >= hi_t - lo_t)):
                    I.raise_('IndexError', node)
                i = i + (hi_t - lo_t)
        return wrap_term(I, base.extra['elem'], lt.lat(base.t, lo_t + i))
    if obj.kind == 'kmap':
        kt = kmap_key_term(I, obj, key, node)
        if kt is None:
            if I.spec:
                I.oos(node, f"key of kind {key.kind} into a {obj.extra['key']}-keyed map")
            I.raise_('KeyError', node)           # a key of another type is never equal to a key of the map
        if not I.spec and not I.path.decide(z3.Select(obj.t['has'], kt)):
            I.raise_('KeyError', node)
        return wrap_term(I, obj.extra['elem'], z3.Select(obj.t['val'], kt))
    if obj.kind in ('clist', 'tuple'):
        ci = const_int(as_int_term(key)) if key.kind in ('int', 'bool') else None
        if ci is None:
            I.oos(node, "symbolic index into a concrete list")
        n = len(obj.t)
        if ci < -n or ci >= n:
            I.raise_('IndexError', node)
        return obj.t[ci]
    if obj.kind == 'slist':
        lt = TY.list_theory(TY.smt_sort(obj.extra['elem']))
        i = as_int_term(key)
        n = lt.llen(obj.t)
        if not I.spec:
            if I.path.decide(i < 0):
                if I.path.decide(i < -n):
                    I.raise_('IndexError', node)
                i = i + n
            elif I.path.decide(i >= n):
                I.raise_('IndexError', node)
        return wrap_term(I, obj.extra['elem'], lt.lat(obj.t, i))
    if I.is_byteslike(obj):
        b = I.as_bytes(obj)
        i = as_int_term(key)
        if not I.spec:
            if I.path.decide(z3.Or(i < -T.blen(b), i >= T.blen(b))):
                I.raise_('IndexError', node)
            if I.path.decide(i < 0):
                i = i + T.blen(b)
        return mk_int(T.bat(b, i))
    if obj.kind == 'cdict':
        from .ops import eq_terms
        eqs = [z3.simplify(eq_terms(I, key, k, node)) for k, _ in obj.t]
        for (k, v), e in zip(obj.t, eqs):
            if z3.is_true(e):
                return v
        live = [(v, e) for (k, v), e in zip(obj.t, eqs) if not z3.is_false(e)]
        if live and all(v.kind == 'str' for v, _ in live) and key.kind == 'str':
            # a table of strings looked up with a symbolic key: one decision (present / KeyError), value as an ite chain
            if not I.spec and not I.path.decide(z3.Or(*[e for _, e in live])):
                I.raise_('KeyError', node)
            t = live[-1][0].t
            for v, e in reversed(live[:-1]):
                t = z3.If(e, v.t, t)
            return mk_str(t)
        for v, e in live:
            if I.path.decide(e):
                return v
        I.raise_('KeyError', node)
    if obj.kind == 'ext':
        return I.registry.ext_getitem(I, obj, key, node)
    I.oos(node, f"subscript on {obj.kind}")


def set_item(I, obj, key, v, node):
    od = odict_of(I, obj)
    if od is not None:
        if key.kind != 'str':
            I.oos(node, "non-string packet key")
        pv = pack_pval(I, v, node)
        lt = TY.list_theory(z3.StringSort())
        has, val, keys = od.t['has'], od.t['val'], od.t['keys']
        present = z3.Select(has, key.t)
        new = SV('odict', {'has': z3.Store(has, key.t, z3.BoolVal(True)),
                           'val': z3.Store(val, key.t, pv),
                           'keys': z3.If(present, keys, lt.lapp(keys, key.t))}, extra=od.extra)
        if obj.kind == 'mobj':
            obj.t.fields['__items__'] = new
        else:
            I.oos(node, "store into a bare mapping value")
        return
    if obj.kind == 'cdict':
        from .ops import eq_terms
        for idx, (k, _) in enumerate(obj.t):
            e = z3.simplify(eq_terms(I, key, k, node))
            if z3.is_true(e):
                obj.t[idx] = (k, v)
                return
            if not z3.is_false(e):
                I.oos(node, "symbolic key store into a literal dict")
        obj.t.append((key, v))
        return
    if obj.kind == 'mdict':
        kt = mdict_key(I, obj, key, node)
        obj.t = {'has': z3.Store(obj.t['has'], kt, z3.BoolVal(True)),
                 'val': z3.Store(obj.t['val'], kt, elem_term(I, obj.extra['elem'], v, node))}
        return
    if obj.kind == 'ext':
        return I.registry.ext_setitem(I, obj, key, v, node)
    I.oos(node, f"subscript store on {obj.kind}")


def kmap_key_term(I, obj, key, node):
    """the key as a term of the map's key sort, or None when a key of this kind can never be in the map.  int / float
    keys that may be equal across the two types (1 == 1.0 hash alike) are outside the subset."""
    kt = obj.extra['key']
    if kt == 'int':
        if key.kind in ('int', 'bool'):
            return as_int_term(key)
        if key.kind == 'real':
            I.oos(node, "float key into an int-keyed map")
        return None
    if kt == 'real':
        if key.kind == 'real':
            return key.t
        if key.kind in ('int', 'bool'):
            return z3.ToReal(as_int_term(key))
        return None
    if kt == 'bytes':
        return I.as_bytes(key) if I.is_byteslike(key) else None
    if kt == 'str':
        return key.t if key.kind == 'str' else None
    I.oos(node, f"map keyed by {kt}")


def clamp_index(I, idx, n):
    """Python slice index normalisation for step 1: negative counts from the end, then clamp to [0, n]."""
    c = const_int(idx)
    if c is not None and c >= 0:
        return z3.If(idx > n, n, idx)
    adj = z3.If(idx < 0, idx + n, idx)
    return z3.If(adj < 0, 0, z3.If(adj > n, n, adj))


def get_slice(I, obj, lo, hi, node):
    if I.is_byteslike(obj):
        b = I.as_bytes(obj)
        n = T.blen(b)
        lo_t = clamp_index(I, as_int_term(lo), n) if lo is not None and lo.kind != 'none' else z3.IntVal(0)
        hi_t = clamp_index(I, as_int_term(hi), n) if hi is not None and hi.kind != 'none' else n
        hi_t = z3.If(hi_t < lo_t, lo_t, hi_t)
        lo_t, hi_t = z3.simplify(lo_t), z3.simplify(hi_t)
        if lo is not None and hi is not None and lo.kind != 'none' and hi.kind != 'none' and \
                (z3.is_app_of(lo_t, z3.Z3_OP_ITE) or z3.is_app_of(hi_t, z3.Z3_OP_ITE)):
            # bounds that the path condition already places inside the buffer need no clamping: keep the plain terms
            lo_p, hi_p = as_int_term(lo), as_int_term(hi)
            inside = z3.And(0 <= lo_p, lo_p <= hi_p, hi_p <= n)
            if not I.path._feasible(z3.And(n >= 0, z3.Not(inside))):
                return mk_bytes(T.window(b, lo_p, hi_p))
        return mk_bytes(T.sl(b, lo_t, hi_t))
    if obj.kind in ('clist', 'tuple'):
        n = len(obj.t)

        def cidx(x, default):
            if x is None or x.kind == 'none':
                return default
            c = const_int(as_int_term(x))
            if c is None:
                I.oos(node, "symbolic slice bound on a concrete list")
            return c
        lo_c, hi_c = cidx(lo, None), cidx(hi, None)
        items = list(obj.t)[slice(lo_c, hi_c)]
        return SV(obj.kind, items if obj.kind == 'clist' else tuple(items))
    if obj.kind == 'slist':
        # a slice of a symbolic list is kept as a read-only view (base list, lo, hi)
        lt = TY.list_theory(TY.smt_sort(obj.extra['elem']))
        n = lt.llen(obj.t)
        lo_t = clamp_index(I, as_int_term(lo), n) if lo is not None and lo.kind != 'none' else z3.IntVal(0)
        hi_t = clamp_index(I, as_int_term(hi), n) if hi is not None and hi.kind != 'none' else n
        c_lo = const_int(as_int_term(lo)) if lo is not None and lo.kind != 'none' else 0
        if c_lo is not None and c_lo >= 0 and (hi is None or hi.kind == 'none') and not I.path._feasible(n < c_lo):
            # xs[c:] of a list known to have at least c elements: no clamping needed
            return SV('lslice', (obj, z3.IntVal(c_lo), n))
        hi_t = z3.If(hi_t < lo_t, lo_t, hi_t)
        return SV('lslice', (obj, z3.simplify(lo_t), z3.simplify(hi_t)))
    I.oos(node, f"slice of {obj.kind}")
