"""Small Python programs covering every modelled operator / builtin; run by CPython and by the symbolic interpreter
(pyvc/conformance.py compares the two on concrete inputs)."""


def p_floordiv_mod(a, b):
    return (a // 8, a % 8, (a + 7) // 8, a // 3 if b > 0 else 0)


def p_shifts(a, n):
    return (a >> n, a << n)


def p_mask(a, n):
    return a & (2 ** n - 1)


def p_mask_const(a):
    return (a & 0xFF, (a >> 8) & 0xFFFFFF, a & 1)


def p_sign_bit(a, w):
    if (a & (1 << (w - 1))) != 0:
        return a - (1 << w)
    return a


def p_or_chain(a, b):
    if a < 0 or a > 7 or b < 0 or b > 2047:
        raise ValueError("range")
    return a << 45 | b << 32 | 5


def p_slice(b, i, j):
    return (b[i:j], b[i:], b[:j], len(b[i:j]))


def p_slice_neg(b):
    return (b[-5:], b[:-1], b[1:])


def p_from_bytes(b):
    return (int.from_bytes(b, byteorder="big"), int.from_bytes(b, "little"))


def p_to_bytes(a, k):
    return int.to_bytes(a, k, "big")


def p_to_bytes_little(a, k):
    return a.to_bytes(length=k, byteorder="little")


def p_concat(b, c):
    d = b + c
    d += b
    return (d, len(d))


def p_index(b, i):
    return b[i]


def p_truthiness(b, a):
    r = 0
    if not b:
        r += 1
    if a:
        r += 2
    if b and a:
        r += 4
    return r


def p_and_or_values(a, c):
    return (a or c, a and c)


def p_chained_compare(a, lo, hi):
    return lo <= a <= hi


def p_pow(a, n):
    return 2 ** n if n >= 0 else 0


def p_int_of_real(x):
    return int(x)


def p_minmax(a, c, d):
    return (min(a, c, d), max(a, c), min([a, d]))


def p_real_arith(x, y):
    return (x + y, x * y - 1.5, x / y if y != 0 else 0.0)


def p_divzero(a, c):
    return a // c if c >= 0 else 0


def p_bool_arith(a):
    return (a > 3) + (a > 5)


PROGRAMS = {
    'p_floordiv_mod': {'a': 'int', 'b': 'int'}, 'p_shifts': {'a': 'int', 'n': 'int'}, 'p_mask': {'a': 'int', 'n': 'int'},
    'p_mask_const': {'a': 'int'}, 'p_sign_bit': {'a': 'int', 'w': 'int'}, 'p_or_chain': {'a': 'int', 'b': 'int'},
    'p_slice': {'b': 'bytes', 'i': 'int', 'j': 'int'}, 'p_slice_neg': {'b': 'bytes'}, 'p_from_bytes': {'b': 'bytes'},
    'p_to_bytes': {'a': 'int', 'k': 'int'}, 'p_to_bytes_little': {'a': 'int', 'k': 'int'}, 'p_concat': {'b': 'bytes', 'c': 'bytes'},
    'p_index': {'b': 'bytes', 'i': 'int'}, 'p_truthiness': {'b': 'bytes', 'a': 'int'}, 'p_and_or_values': {'a': 'int', 'c': 'int'},
    'p_chained_compare': {'a': 'int', 'lo': 'int', 'hi': 'int'}, 'p_pow': {'a': 'int', 'n': 'int'},
    'p_int_of_real': {'x': 'real'}, 'p_minmax': {'a': 'int', 'c': 'int', 'd': 'int'}, 'p_real_arith': {'x': 'real', 'y': 'real'},
    'p_divzero': {'a': 'int', 'c': 'int'}, 'p_bool_arith': {'a': 'int'},
}
