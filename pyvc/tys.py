"""Type descriptors used in contract signatures and record schemas, and their SMT representation.

  'int' 'bool' 'real' 'str' 'bytes' 'none' 'any'
  ('opt', T)                 Optional[T]
  ('list', T)                list of T of symbolic length (immutable view)
  ('tuple', [T...])
  ('rec', 'Class')           immutable record of exactly this class (fields from the schema)
  ('rec', ['A','B',...])     immutable record of one of these classes (dynamic dispatch on a symbolic tag)
  ('mobj', 'Class')          mutable object with concrete identity; fields from the schema
  ('union', [T...])          the contract is verified once per member (monomorphisation, S10)
  ('pval', [kinds])          a parsed parameter value (IntParameter / FloatParameter / ...) of one of the listed kinds
  ('func', name)             a callable with a declared contract `name`
  ('ext', name)              an external object handled by a model (reader sources, ...)
"""
import z3
from . import theory as T

Obj = z3.DeclareSort('Obj')
cls_of = z3.Function('cls_of', Obj, z3.IntSort())

_list_sorts = {}
_class_ids = {}


def class_id(name):
    if name not in _class_ids:
        _class_ids[name] = len(_class_ids) + 1
    return _class_ids[name]


class ListTheory:
    def __init__(self, elem_sort, tag):
        self.elem = elem_sort
        self.sort = z3.DeclareSort(f'List_{tag}')
        self.llen = z3.Function(f'llen_{tag}', self.sort, z3.IntSort())
        self.lat = z3.Function(f'lat_{tag}', self.sort, z3.IntSort(), elem_sort)
        self.lapp = z3.Function(f'lapp_{tag}', self.sort, elem_sort, self.sort)
        self.lempty = z3.Const(f'lempty_{tag}', self.sort)
        self.lcat = z3.Function(f'lcat_{tag}', self.sort, self.sort, self.sort)      # concatenation
        l = z3.Const('l!q', self.sort)
        x = z3.Const('x!q', elem_sort)
        i = z3.Int('i!q')
        self.lsum = None
        l2 = z3.Const('l2!q', self.sort)
        self.ext_axiom = (f'lext_{tag}', z3.ForAll([l, l2], z3.Implies(
            z3.And(self.llen(l) == self.llen(l2),
                   z3.ForAll([i], z3.Implies(z3.And(0 <= i, i < self.llen(l)), self.lat(l, i) == self.lat(l2, i)))),
            l == l2), patterns=[z3.MultiPattern(self.llen(l), self.llen(l2))]))
        if str(elem_sort) in ('Real', 'Int'):
            # lsum(l) = at(l,0) + ... + at(l,len-1), through the prefix sums lpre(l,i)
            self.lpre = z3.Function(f'lpre_{tag}', self.sort, z3.IntSort(), elem_sort)
            self.lsum = z3.Function(f'lsum_{tag}', self.sort, elem_sort)
        self.axioms = [
            (f'llen_nonneg_{tag}', z3.ForAll([l], self.llen(l) >= 0, patterns=[self.llen(l)])),
            (f'lempty_{tag}', self.llen(self.lempty) == 0),
            (f'lapp_len_{tag}', z3.ForAll([l, x], self.llen(self.lapp(l, x)) == self.llen(l) + 1,
                                          patterns=[self.lapp(l, x)])),
            (f'lapp_at_{tag}', z3.ForAll([l, x, i], self.lat(self.lapp(l, x), i) ==
                                         z3.If(i == self.llen(l), x, self.lat(l, i)),
                                         patterns=[self.lat(self.lapp(l, x), i)])),
            self.ext_axiom,
        ]
        l3 = z3.Const('l3!q', self.sort)
        self.axioms += [
            (f'lcat_len_{tag}', z3.ForAll([l, l2], self.llen(self.lcat(l, l2)) == self.llen(l) + self.llen(l2),
                                          patterns=[self.lcat(l, l2)])),
            (f'lcat_at_{tag}', z3.ForAll([l, l2, i], self.lat(self.lcat(l, l2), i) ==
                                         z3.If(i < self.llen(l), self.lat(l, i), self.lat(l2, i - self.llen(l))),
                                         patterns=[self.lat(self.lcat(l, l2), i)])),
            (f'lcat_empty_r_{tag}', z3.ForAll([l], self.lcat(l, self.lempty) == l, patterns=[self.lcat(l, self.lempty)])),
            (f'lcat_empty_l_{tag}', z3.ForAll([l], self.lcat(self.lempty, l) == l, patterns=[self.lcat(self.lempty, l)])),
            (f'lcat_assoc_{tag}', z3.ForAll([l, l2, l3], self.lcat(self.lcat(l, l2), l3) == self.lcat(l, self.lcat(l2, l3)),
                                            patterns=[self.lcat(self.lcat(l, l2), l3)])),
            (f'lcat_app_{tag}', z3.ForAll([l, l2, x], self.lcat(l, self.lapp(l2, x)) == self.lapp(self.lcat(l, l2), x),
                                          patterns=[self.lcat(l, self.lapp(l2, x))])),
        ]
        if self.lsum is not None:
            self.axioms += [
                (f'lsum_def_{tag}', z3.ForAll([l], self.lsum(l) == self.lpre(l, self.llen(l)), patterns=[self.lsum(l)])),
                (f'lpre_0_{tag}', z3.ForAll([l], self.lpre(l, 0) == 0, patterns=[self.lpre(l, 0)])),
                (f'lpre_step_{tag}', z3.ForAll([l, i], z3.Implies(z3.And(0 <= i, i < self.llen(l)),
                                                              self.lpre(l, i + 1) == self.lpre(l, i) + self.lat(l, i)),
                                               patterns=[self.lpre(l, i + 1)])),
            ]


def sort_tag(s):
    return str(s).replace(' ', '_').replace('(', '_').replace(')', '_')


def list_theory(elem_sort):
    tag = sort_tag(elem_sort)
    if tag not in _list_sorts:
        _list_sorts[tag] = ListTheory(elem_sort, tag)
    return _list_sorts[tag]


def all_list_axioms():
    out = []
    for lt in _list_sorts.values():
        out.extend(lt.axioms)
    return out


def smt_sort(ty):
    """SMT sort of a type descriptor (for values that must live inside SMT terms)."""
    if ty == 'int':
        return z3.IntSort()
    if ty == 'bool':
        return z3.BoolSort()
    if ty == 'real':
        return z3.RealSort()
    if ty == 'str':
        return z3.StringSort()
    if ty == 'bytes':
        return T.Bytes
    if isinstance(ty, tuple):
        if ty[0] == 'rec':
            return Obj
        if ty[0] == 'list':
            return list_theory(smt_sort(ty[1])).sort
        if ty[0] == 'opt':
            return smt_sort(ty[1])
        if ty[0] == 'pval':
            return PVal
        if ty[0] == 'func':
            return Obj
        if ty[0] == 'bobj':
            return T.Bytes        # an instance of a bytes subclass (RawPacketData): its content
    raise ValueError(f"no SMT sort for type {ty!r}")


# ---- parsed parameter values as an SMT datatype --------------------------------------------------------------------
_Raw = z3.Datatype('Raw')
_Raw.declare('RInt', ('ri', z3.IntSort()))
_Raw.declare('RReal', ('rr', z3.RealSort()))
_Raw.declare('RBytes', ('rb', T.Bytes))
_Raw.declare('RStr', ('rs', z3.StringSort()))
Raw = _Raw.create()

_PVal = z3.Datatype('PVal')
_PVal.declare('PInt', ('pi', z3.IntSort()), ('piraw', Raw))
_PVal.declare('PFloat', ('pf', z3.RealSort()), ('pfraw', Raw))
_PVal.declare('PStr', ('ps', z3.StringSort()), ('psraw', Raw))
_PVal.declare('PBin', ('pb', T.Bytes), ('pbraw', Raw))
_PVal.declare('PBool', ('pbo', z3.BoolSort()), ('pboraw', Raw))
PVal = _PVal.create()

PVAL_KINDS = {
    'IntParameter': ('int', PVal.PInt, PVal.is_PInt, PVal.pi, PVal.piraw),
    'FloatParameter': ('real', PVal.PFloat, PVal.is_PFloat, PVal.pf, PVal.pfraw),
    'StrParameter': ('str', PVal.PStr, PVal.is_PStr, PVal.ps, PVal.psraw),
    'BinaryParameter': ('bytes', PVal.PBin, PVal.is_PBin, PVal.pb, PVal.pbraw),
    'BoolParameter': ('bool', PVal.PBool, PVal.is_PBool, PVal.pbo, PVal.pboraw),
}
RAW_KINDS = {
    'int': (Raw.RInt, Raw.is_RInt, Raw.ri),
    'real': (Raw.RReal, Raw.is_RReal, Raw.rr),
    'bytes': (Raw.RBytes, Raw.is_RBytes, Raw.rb),
    'str': (Raw.RStr, Raw.is_RStr, Raw.rs),
}
