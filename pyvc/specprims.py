"""Primitive spec functions available inside contract clauses and oracles (symbolic side).
The concrete side (used by native replay) is /verif/specs/prims.py; the two are compared by pyvc.conformance."""
import z3

from . import theory as T
from . import tys as TY
from .sv import SV, NONE, OutOfSubset, StaleContract, mk_int, mk_bool, mk_real, mk_str, mk_bytes
from .interp import as_int_term, as_real_term, const_int


def call_spec(I, name, args, kwargs, node):
    h = PRIMS.get(name)
    if h is None:
        raise StaleContract(f"unknown spec primitive {name}")
    return h(I, args, node)


def _b(I, x):
    return I.as_bytes(x)


def p_be(I, a, n):
    return mk_int(T.be(_b(I, a[0])))


def p_le(I, a, n):
    return mk_int(T.le(_b(I, a[0])))


def p_sl(I, a, n):
    return mk_bytes(T.window(_b(I, a[0]), as_int_term(a[1]), as_int_term(a[2])))


def p_cat(I, a, n):
    return mk_bytes(T.cat(_b(I, a[0]), _b(I, a[1])))


def p_low(I, a, n):
    return mk_int(T.low(as_int_term(a[0]), z3.simplify(as_int_term(a[1]))))


def p_shr(I, a, n):
    e = z3.simplify(as_int_term(a[1]))
    if const_int(e) == 0:
        return mk_int(as_int_term(a[0]))
    return mk_int(T.shr(as_int_term(a[0]), e))


def p_pow2(I, a, n):
    from .ops import pow2_term
    return mk_int(pow2_term(as_int_term(a[0])))


def p_tb(I, a, n):
    return mk_bytes(T.tb(as_int_term(a[0]), as_int_term(a[1])))


def p_tl(I, a, n):
    return mk_bytes(T.tl(as_int_term(a[0]), as_int_term(a[1])))


def p_bat(I, a, n):
    return mk_int(T.bat(_b(I, a[0]), as_int_term(a[1])))


def p_rpow(I, a, n):
    return mk_real(T.rpow(as_real_term(a[0]), as_int_term(a[1])))


def p_rpow2(I, a, n):
    return mk_real(T.rpow2(as_int_term(a[0])))


def p_bfind(I, a, n):
    return mk_int(T.bfind(_b(I, a[0]), _b(I, a[1])))


def p_band(I, a, n):
    return mk_int(T.band(as_int_term(a[0]), as_int_term(a[1])))


def p_bor(I, a, n):
    return mk_int(T.bor(as_int_term(a[0]), as_int_term(a[1])))


def p_toreal(I, a, n):
    return mk_real(as_real_term(a[0]))


def p_at(I, a, n):
    seq, i = a
    if seq.kind == 'slist':
        from .objects import wrap_term
        lt = TY.list_theory(TY.smt_sort(seq.extra['elem']))
        return wrap_term(I, seq.extra['elem'], lt.lat(seq.t, as_int_term(i)))
    if seq.kind in ('clist', 'tuple'):
        c = const_int(as_int_term(i))
        if c is None:
            raise OutOfSubset("at() with symbolic index on concrete list")
        return seq.t[c]
    raise OutOfSubset(f"at() on {seq.kind}")


def p_append(I, a, n):
    from .objects import elem_term, as_slist
    seq, x = a
    if seq.kind in ('clist', 'tuple'):
        raise OutOfSubset("append() on a concrete list in a spec")
    lt = TY.list_theory(TY.smt_sort(seq.extra['elem']))
    return SV('slist', lt.lapp(seq.t, elem_term(I, seq.extra['elem'], x)), extra={k: v for k, v in seq.extra.items() if k != 'backref'})


def p_mset(I, a, n):
    """mset(d, k, v): the local dict d with key k set to v"""
    from .objects import mdict_key, elem_term
    d, k, v = a
    kt = mdict_key(I, d, k, n)
    return SV('mdict', {'has': z3.Store(d.t['has'], kt, z3.BoolVal(True)),
                        'val': z3.Store(d.t['val'], kt, elem_term(I, d.extra['elem'], v, n))}, extra=d.extra)


def p_mdel(I, a, n):
    """mdel(d, k): the local dict d without key k"""
    from .objects import mdict_key
    d, k = a
    kt = mdict_key(I, d, k, n)
    return SV('mdict', {'has': z3.Store(d.t['has'], kt, z3.BoolVal(False)), 'val': d.t['val']}, extra=d.extra)


def p_is_int_valued(I, a, n):
    from .calls import real_is_int
    return mk_bool(real_is_int(as_real_term(a[0])))


def p_decode(I, a, n):
    from .calls import decode_fn
    return mk_str(decode_fn(_b(I, a[0]), a[1].t))


def p_decodable(I, a, n):
    from .calls import decodable
    return mk_bool(decodable(_b(I, a[0]), a[1].t))


def p_cls_is(I, a, n):
    obj, name = a
    from .calls import literal_str
    s = literal_str(name)
    if obj.kind == 'rec':
        return mk_bool(TY.cls_of(obj.t) == TY.class_id(s))
    if obj.kind == 'mobj':
        return mk_bool(obj.t.cls == s)
    return mk_bool((obj.cls or '') == s)


def _events(I):
    if I.path.events is None:
        lt = TY.list_theory(TY.Obj)
        e0 = z3.Const(I.path.fresh_name('events0'), lt.sort)
        I.path.events = I.path.events0 = SV('slist', e0, extra={'elem': ('rec', ['Parameter'])})
    return I.path.events


def p_events(I, a, n):
    """ghost: the objects on which functions with an `emits` contract have been called so far, in call order"""
    return _events(I)


def p_events0(I, a, n):
    """ghost: that list when the function (or the call being summarised) started"""
    _events(I)
    return I.path.events0


def p_lcat(I, a, n):
    x, y = a
    if x.kind != 'slist' or y.kind != 'slist':
        raise OutOfSubset("lcat() of non-symbolic lists")
    lt = TY.list_theory(TY.smt_sort(x.extra['elem']))
    return SV('slist', lt.lcat(x.t, y.t), extra={k: v for k, v in x.extra.items() if k != 'backref'})


def p_ieee(I, a, n):
    """E2: struct.unpack(fmt, b)[0] as an uninterpreted function of the format and the bytes"""
    from .externals import ieee
    return mk_real(ieee(a[0].t, _b(I, a[1])))


def p_bound(I, a, n):
    """bound('name'): the local variable has been assigned on this path (exit-state clauses that speak about a local
    only from the point where it exists)"""
    from .calls import literal_str
    fr = getattr(I, 'spec_frame', None)
    return mk_bool(fr is not None and fr.lookup(literal_str(a[0])) is not None)


def p_feq(I, a, n):
    return mk_bool(as_real_term(a[0]) == as_real_term(a[1]))


def p_kind_is(I, a, n):
    """kind_is(x, 'int' | 'real' | 'str' | 'bytes'): the kind of the (dynamically typed) value x on this path"""
    from .calls import literal_str
    want = literal_str(a[1])
    k = a[0].kind
    if k == 'bool':
        k = 'int'
    if k == 'mobj' and I.is_byteslike(a[0]):
        k = 'bytes'
    return mk_bool(k == want)


def p_keys_of(I, a, n):
    """the names of the items of a packet, in insertion order"""
    from .objects import odict_of
    od = odict_of(I, a[0])
    if od is None:
        raise OutOfSubset(f"keys_of() on {a[0].kind}")
    return SV('slist', od.t['keys'], extra={'elem': 'str'})


def p_warned(I, a, n):
    return mk_bool(len(I.path.warn_log) > 0)


def p_coerce_like(I, a, n):
    """the literal (a string) interpreted in the type of the value v"""
    from .calls import str2int, str2real
    v, lit = a
    if v.kind in ('int',):
        return mk_int(str2int(lit.t))
    if v.kind == 'real':
        return mk_real(str2real(lit.t))
    if v.kind == 'str':
        return mk_str(lit.t)
    raise OutOfSubset(f'coerce_like for a value of kind {v.kind}')


def p_coercible(I, a, n):
    from .calls import str_is_int, str_is_real
    v, lit = a
    if v.kind == 'int':
        return mk_bool(str_is_int(lit.t))
    if v.kind == 'real':
        return mk_bool(str_is_real(lit.t))
    if v.kind in ('str', 'none'):
        return mk_bool(True)
    raise OutOfSubset(f'coercible for a value of kind {v.kind}')


def p_cap(I, a, n):
    """cap(f, 'name'): the value of variable `name` captured by the closure value f (an int)"""
    from .calls import literal_str
    f, name = a
    nm = literal_str(name)
    con = I.registry.contract_for(f.extra.get('contract')) if f.extra.get('contract') else None
    cty = con.captures.get(nm, 'int') if con is not None else 'int'
    if cty != 'int':
        # the same accessor term that a call through the function value uses for this captured variable
        from .contract import capture_term
        return capture_term(I, con.target, nm, cty, f)
    acc = z3.Function(f"cap_{nm}", TY.Obj, z3.IntSort())
    return mk_int(acc(f.extra['id']))


def p_comparable(I, a, n):
    x, y = a
    num = ('int', 'real')
    return mk_bool((x.kind in num and y.kind in num) or (x.kind == 'str' and y.kind == 'str'))


def p_src_T(I, a, n):
    return a[0].extra['T']


def p_src_R(I, a, n):
    return a[0].extra['R']


PRIMS = {'cap': p_cap, 'comparable': p_comparable, 'coerce_like': p_coerce_like, 'coercible': p_coercible, 'src_T': p_src_T, 'src_R': p_src_R, 'be': p_be, 'le': p_le, 'sl': p_sl, 'cat': p_cat, 'low': p_low, 'shr': p_shr, 'pow2': p_pow2, 'tb': p_tb,
         'tl': p_tl, 'bat': p_bat, 'rpow': p_rpow, 'rpow2': p_rpow2, 'bfind': p_bfind, 'band': p_band, 'bor': p_bor,
         'toreal': p_toreal, 'i2r': p_toreal, 'at': p_at, 'append': p_append, 'is_int_valued': p_is_int_valued,
         'decode': p_decode, 'decodable': p_decodable, 'cls_is': p_cls_is, 'warned': p_warned, 'mset': p_mset, 'mdel': p_mdel, 'keys_of': p_keys_of, 'kind_is': p_kind_is, 'ieee': p_ieee, 'feq': p_feq, 'bound': p_bound, 'events': p_events, 'events0': p_events0, 'lcat': p_lcat}
