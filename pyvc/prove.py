"""Obligation discharge: z3 5.1 (python API, worker pool) -> cvc5 CLI -> /usr/bin/z3 4.8 CLI."""
import hashlib
import multiprocessing as mp
import os
import subprocess
import tempfile
import time
import z3

from . import theory as T
from . import tys as TY

TIMEOUT_MS = int(os.environ.get('PYVC_TIMEOUT_MS', '10000'))
FIRST_TIMEOUT_MS = int(os.environ.get('PYVC_FIRST_TIMEOUT_MS', '3000'))
RETRY_TIMEOUT_MS = int(os.environ.get('PYVC_RETRY_TIMEOUT_MS', '60000'))


def obligation_formulas(ob, extra_axioms=()):
    """(assumptions, negated goal) as lists of z3 formulas, including theory axioms and ground unfoldings."""
    base = list(ob.pc) + list(ob.hints) + [z3.Not(ob.goal)]
    named = list(T.AXIOMS) + list(TY.all_list_axioms()) + [(f"extra{i}", f) for i, f in enumerate(extra_axioms)]
    ax = [f for _, f in T.relevant_axioms(named, base)]
    unfold = T.ground_unfold(base)
    return ax + unfold + base


def to_smt2(formulas):
    s = z3.Solver()
    for f in formulas:
        s.add(f)
    return "(set-logic ALL)\n" + s.to_smt2()


def _solve_z3(text, timeout_ms, seed=0):
    ctx = z3.Context()
    s = z3.Solver(ctx=ctx)
    s.set('timeout', timeout_ms)
    if seed:
        s.set('smt.random_seed', seed)
        s.set('smt.phase_selection', 5 if seed % 2 else 2)
    s.set('smt.mbqi', False)
    s.set('auto_config', False)
    try:
        s.from_string(text)
    except z3.Z3Exception as e:
        return 'error', str(e)[:300]
    r = s.check()
    detail = ''
    if r == z3.sat:
        try:
            detail = str(s.model())[:2000]
        except Exception:
            detail = ''
    elif r == z3.unknown:
        detail = s.reason_unknown()
    return str(r), detail


def _solve_cli(cmd, text, timeout_s):
    with tempfile.NamedTemporaryFile('w', suffix='.smt2', delete=False, dir=os.environ.get('TMPDIR', '/tmp')) as fh:
        fh.write(text)
        name = fh.name
    try:
        p = subprocess.run(cmd + [name], capture_output=True, text=True, timeout=timeout_s + 5)
        out = (p.stdout or '').strip().splitlines()
        r = out[0].strip() if out else 'unknown'
        if r not in ('sat', 'unsat', 'unknown'):
            return 'unknown', (p.stdout + p.stderr)[:300]
        return r, ''
    except subprocess.TimeoutExpired:
        return 'unknown', 'timeout'
    finally:
        os.unlink(name)


def solve_job(job):
    """job = (key, smt2 text, tier).  Returns (key, verdict, backend, seconds, detail, attempts)."""
    key, text, tier = job
    attempts = []
    t0 = time.time()
    r, d = _solve_z3(text, FIRST_TIMEOUT_MS)
    attempts.append(('z3-5.1', r, round(time.time() - t0, 3)))
    if r == 'unsat' and tier != 'thorough':
        return key, 'unsat', 'z3-5.1', time.time() - t0, d, attempts
    if r == 'sat':
        return key, 'sat', 'z3-5.1', time.time() - t0, d, attempts
    first = r
    saturated = (r == 'unknown' and 'incomplete' in (d or '') and time.time() - t0 < 1.5)
    # second opinion / fallback
    t1 = time.time()
    budget = 4000 if saturated else TIMEOUT_MS
    r2, d2 = _solve_cli(['/usr/bin/cvc5', '--tlimit=%d' % budget, '--strings-exp'], text, budget / 1000)
    attempts.append(('cvc5-1.0', r2, round(time.time() - t1, 3)))
    if first == 'unsat':
        if r2 == 'sat':
            return key, 'disagree', 'z3-5.1/cvc5', time.time() - t0, 'z3 unsat, cvc5 sat', attempts
        return key, 'unsat', 'z3-5.1' + ('+cvc5' if r2 == 'unsat' else ''), time.time() - t0, d, attempts
    if r2 == 'unsat':
        return key, 'unsat', 'cvc5-1.0', time.time() - t0, d2, attempts
    if saturated:
        # E-matching saturated without a contradiction within a second: more time does not help; other instantiation
        # orders might (cheap to try)
        for sd in (7, 23):
            ts = time.time()
            rs, ds = _solve_z3(text, FIRST_TIMEOUT_MS, seed=sd)
            attempts.append((f'z3-5.1-seed{sd}', rs, round(time.time() - ts, 3)))
            if rs == 'unsat':
                return key, 'unsat', 'z3-5.1', time.time() - t0, ds, attempts
        return key, 'unknown', 'none', time.time() - t0, f"z3: {d}; cvc5: {r2} {d2}", attempts
    t2 = time.time()
    r3, d3 = _solve_cli(['/usr/bin/z3', '-T:%d' % (TIMEOUT_MS // 1000)], text, TIMEOUT_MS / 1000)
    attempts.append(('z3-4.8', r3, round(time.time() - t2, 3)))
    if r3 == 'unsat':
        return key, 'unsat', 'z3-4.8', time.time() - t0, d3, attempts
    if tier != 'thorough':
        if r3 == 'sat' or r2 == 'sat':
            return key, 'sat', 'mixed', time.time() - t0, d, attempts
        return key, 'unknown', 'none', time.time() - t0, f"z3: {d}; cvc5: {d2}; z3-4.8: {d3}", attempts
    # last retry with a long budget on z3 5.1 (thorough tier only)
    t3 = time.time()
    r4, d4 = _solve_z3(text, RETRY_TIMEOUT_MS)
    attempts.append(('z3-5.1-long', r4, round(time.time() - t3, 3)))
    if r4 == 'unsat':
        return key, 'unsat', 'z3-5.1', time.time() - t0, d4, attempts
    if r4 != 'sat':
        for sd in (7, 23):
            ts = time.time()
            rs, ds = _solve_z3(text, TIMEOUT_MS, seed=sd)
            attempts.append((f'z3-5.1-seed{sd}', rs, round(time.time() - ts, 3)))
            if rs == 'unsat':
                return key, 'unsat', 'z3-5.1', time.time() - t0, ds, attempts
    if r4 == 'sat' or r3 == 'sat' or r2 == 'sat':
        return key, 'sat', 'mixed', time.time() - t0, d4 or d, attempts
    return key, 'unknown', 'none', time.time() - t0, f"z3: {d}; cvc5: {d2}; z3-4.8: {d3}", attempts


CACHE_DIR = os.path.join(os.path.dirname(os.path.dirname(os.path.abspath(__file__))), 'build', 'vc_cache')
MAX_FALLBACK_PER_FUNCTION = 24


def _cache_get(h):
    if os.environ.get('PYVC_NO_CACHE'):
        return None
    p = os.path.join(CACHE_DIR, h + '.json')
    if os.path.exists(p):
        try:
            import json
            return json.load(open(p))
        except Exception:
            return None
    return None


def _cache_put(h, rec):
    if os.environ.get('PYVC_NO_CACHE'):
        return
    import json
    os.makedirs(CACHE_DIR, exist_ok=True)
    tmp = os.path.join(CACHE_DIR, f".{h}.{os.getpid()}.tmp")
    with open(tmp, 'w') as fh:
        json.dump(rec, fh)
    os.replace(tmp, os.path.join(CACHE_DIR, h + '.json'))


def solve_first(job):
    """phase 1: z3 5.1 only, short budget"""
    key, text, tier = job
    t0 = time.time()
    r, d = _solve_z3(text, FIRST_TIMEOUT_MS)
    return key, r, d, time.time() - t0


_OBS = []
_EXTRA = ()
_TIER = 'quick'


def _prep_and_first(i):
    """worker (forked after symbolic execution, so the z3 terms are in its address space): build the VC text of
    obligation i, look it up in the verdict cache, else run phase 1 (z3 5.1, short budget)."""
    ob = _OBS[i]
    g = z3.simplify(ob.goal)
    if z3.is_true(g):
        return i, None, 'unsat', 'trivial', 0.0, '', None, 0, False
    text = to_smt2(obligation_formulas(ob, _EXTRA))
    h = hashlib.sha256(text.encode()).hexdigest()
    if _TIER != 'thorough':
        c = _cache_get(h)
        if c is not None and c.get('verdict') == 'unsat':
            return i, h, 'unsat', c['backend'], c['seconds'], '', None, len(text), True
        t0 = time.time()
        r, d = _solve_z3(text, FIRST_TIMEOUT_MS)
        secs = time.time() - t0
        if r == 'unsat':
            _cache_put(h, dict(verdict='unsat', backend='z3-5.1', seconds=secs))
            return i, h, 'unsat', 'z3-5.1', secs, d, None, len(text), False
        if r == 'unknown':
            # the other solver straight away, with a short budget (cvc5 decides most of what z3's E-matching leaves open)
            r2, d2 = _solve_cli(['/usr/bin/cvc5', '--tlimit=10000', '--strings-exp'], text, 10)
            secs = time.time() - t0
            if r2 == 'unsat':
                _cache_put(h, dict(verdict='unsat', backend='cvc5-1.0', seconds=secs))
                return i, h, 'unsat', 'cvc5-1.0', secs, d2, None, len(text), False
        return i, h, r, 'z3-5.1', secs, d, text, len(text), False
    return i, h, 'todo', '', 0.0, '', text, len(text), False


def discharge(obligations, tier='quick', jobs=None, extra_axioms=()):
    """Returns (dict index -> result dict, dict sha -> VC text of the undischarged ones).
    Verdicts of VC texts already proved `unsat` are reused from build/vc_cache (keyed by the SHA-256 of the exact
    SMT-LIB text, which is regenerated from the current source tree on every run); nothing else is cached."""
    global _OBS, _EXTRA, _TIER
    _OBS, _EXTRA, _TIER = list(obligations), tuple(extra_axioms), tier
    jobs = jobs or min(16, os.cpu_count() or 4)
    out = {}
    texts = {}
    if not _OBS:
        return out, texts
    ctx = mp.get_context('fork')
    idx = list(range(len(_OBS)))
    if len(idx) <= 2 or jobs == 1:
        first = [_prep_and_first(i) for i in idx]
    else:
        with ctx.Pool(min(jobs, len(idx))) as pool:
            first = pool.map(_prep_and_first, idx, chunksize=4)
    pending = {}
    per_owner = {}
    for i, h, r, backend, secs, d, text, size, cached in first:
        if r == 'unsat':
            out[i] = dict(verdict='unsat', backend=backend, seconds=secs, detail='', size=size, smt2_sha=h,
                          attempts=[('cache' if cached else backend, 'unsat', round(secs, 3))], cached=cached)
            continue
        texts[h] = text
        o = _OBS[i].name.split(':')[0]
        per_owner[o] = per_owner.get(o, 0) + 1
        if tier != 'thorough' and per_owner[o] > MAX_FALLBACK_PER_FUNCTION and h not in pending:
            out[i] = dict(verdict='unknown', backend='none', seconds=secs, size=size, smt2_sha=h,
                          detail=f"z3: {r} {d}; fallback back ends skipped: {o} already has "
                                 f"{MAX_FALLBACK_PER_FUNCTION} undischarged obligations",
                          attempts=[('z3-5.1', r, round(secs, 3))])
            continue
        pending.setdefault(h, []).append((i, size))
    if pending:
        work = [(h, texts[h], tier) for h in pending]
        if len(work) == 1:
            outs = [solve_job(work[0])]
        else:
            with ctx.Pool(min(jobs, len(work))) as pool:
                outs = pool.map(solve_job, work, chunksize=1)
        for key, verdict, backend, secs, detail, attempts in outs:
            if verdict == 'unsat':
                _cache_put(key, dict(verdict='unsat', backend=backend, seconds=secs))
            for i, size in pending[key]:
                out[i] = dict(verdict=verdict, backend=backend, seconds=secs, detail=detail, attempts=attempts,
                              size=size, smt2_sha=key)
    return out, texts
