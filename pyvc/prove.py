"""Obligation discharge: z3 5.1 (python API, worker pool) -> cvc5 CLI -> /usr/bin/z3 4.8 CLI."""
import hashlib
import multiprocessing as mp
import os
import subprocess
import tempfile
import time
import z3

from . import theory as T
from . import types as TY

TIMEOUT_MS = int(os.environ.get('PYVC_TIMEOUT_MS', '10000'))
FIRST_TIMEOUT_MS = int(os.environ.get('PYVC_FIRST_TIMEOUT_MS', '3000'))
RETRY_TIMEOUT_MS = int(os.environ.get('PYVC_RETRY_TIMEOUT_MS', '60000'))


def obligation_formulas(ob, extra_axioms=()):
    """(assumptions, negated goal) as lists of z3 formulas, including theory axioms and ground unfoldings."""
    base = list(ob.pc) + list(ob.hints) + [z3.Not(ob.goal)]
    named = list(T.AXIOMS) + list(TY.all_list_axioms()) + [(f"extra{i}", f) for i, f in enumerate(extra_axioms)]
    ax = [f for _, f in T.relevant_axioms(named, base)]
    unfold = T.ground_unfold(base)
    return ax + unfold + base


def to_smt2(formulas):
    s = z3.Solver()
    for f in formulas:
        s.add(f)
    return "(set-logic ALL)\n" + s.to_smt2()


def _solve_z3(text, timeout_ms, seed=0):
    ctx = z3.Context()
    s = z3.Solver(ctx=ctx)
    s.set('timeout', timeout_ms)
    if seed:
        s.set('smt.random_seed', seed)
        s.set('smt.phase_selection', 5 if seed % 2 else 2)
    s.set('smt.mbqi', False)
    s.set('auto_config', False)
    try:
        s.from_string(text)
    except z3.Z3Exception as e:
        return 'error', str(e)[:300]
    r = s.check()
    detail = ''
    if r == z3.sat:
        try:
            detail = str(s.model())[:2000]
        except Exception:
            detail = ''
    elif r == z3.unknown:
        detail = s.reason_unknown()
    return str(r), detail


def _solve_cli(cmd, text, timeout_s):
    with tempfile.NamedTemporaryFile('w', suffix='.smt2', delete=False, dir=os.environ.get('TMPDIR', '/tmp')) as fh:
        fh.write(text)
        name = fh.name
    try:
        p = subprocess.run(cmd + [name], capture_output=True, text=True, timeout=timeout_s + 5)
        out = (p.stdout or '').strip().splitlines()
        r = out[0].strip() if out else 'unknown'
        if r not in ('sat', 'unsat', 'unknown'):
            return 'unknown', (p.stdout + p.stderr)[:300]
        return r, ''
    except subprocess.TimeoutExpired:
        return 'unknown', 'timeout'
    finally:
        os.unlink(name)


def solve_job(job):
    """job = (key, smt2 text, tier).  Returns (key, verdict, backend, seconds, detail, attempts)."""
    key, text, tier = job
    attempts = []
    t0 = time.time()
    r, d = _solve_z3(text, FIRST_TIMEOUT_MS)
    attempts.append(('z3-5.1', r, round(time.time() - t0, 3)))
    if r == 'unsat' and tier != 'thorough':
        return key, 'unsat', 'z3-5.1', time.time() - t0, d, attempts
    if r == 'sat':
        return key, 'sat', 'z3-5.1', time.time() - t0, d, attempts
    first = r
    saturated = (r == 'unknown' and 'incomplete' in (d or '') and time.time() - t0 < 1.5)
    # second opinion / fallback
    t1 = time.time()
    budget = 4000 if saturated else TIMEOUT_MS
    r2, d2 = _solve_cli(['/usr/bin/cvc5', '--tlimit=%d' % budget, '--strings-exp'], text, budget / 1000)
    attempts.append(('cvc5-1.0', r2, round(time.time() - t1, 3)))
    if first == 'unsat':
        if r2 == 'sat':
            return key, 'disagree', 'z3-5.1/cvc5', time.time() - t0, 'z3 unsat, cvc5 sat', attempts
        return key, 'unsat', 'z3-5.1' + ('+cvc5' if r2 == 'unsat' else ''), time.time() - t0, d, attempts
    if r2 == 'unsat':
        return key, 'unsat', 'cvc5-1.0', time.time() - t0, d2, attempts
    if saturated:
        # E-matching saturated without a contradiction within a second: more time does not help; other instantiation
        # orders might (cheap to try)
        for sd in (7, 23):
            ts = time.time()
            rs, ds = _solve_z3(text, FIRST_TIMEOUT_MS, seed=sd)
            attempts.append((f'z3-5.1-seed{sd}', rs, round(time.time() - ts, 3)))
            if rs == 'unsat':
                return key, 'unsat', 'z3-5.1', time.time() - t0, ds, attempts
        return key, 'unknown', 'none', time.time() - t0, f"z3: {d}; cvc5: {r2} {d2}", attempts
    t2 = time.time()
    r3, d3 = _solve_cli(['/usr/bin/z3', '-T:%d' % (TIMEOUT_MS // 1000)], text, TIMEOUT_MS / 1000)
    attempts.append(('z3-4.8', r3, round(time.time() - t2, 3)))
    if r3 == 'unsat':
        return key, 'unsat', 'z3-4.8', time.time() - t0, d3, attempts
    # last retry with a long budget on z3 5.1
    t3 = time.time()
    r4, d4 = _solve_z3(text, RETRY_TIMEOUT_MS)
    attempts.append(('z3-5.1-long', r4, round(time.time() - t3, 3)))
    if r4 == 'unsat':
        return key, 'unsat', 'z3-5.1', time.time() - t0, d4, attempts
    if r4 != 'sat':
        for sd in (7, 23):
            ts = time.time()
            rs, ds = _solve_z3(text, TIMEOUT_MS, seed=sd)
            attempts.append((f'z3-5.1-seed{sd}', rs, round(time.time() - ts, 3)))
            if rs == 'unsat':
                return key, 'unsat', 'z3-5.1', time.time() - t0, ds, attempts
    if r4 == 'sat' or r3 == 'sat' or r2 == 'sat':
        return key, 'sat', 'mixed', time.time() - t0, d4 or d, attempts
    return key, 'unknown', 'none', time.time() - t0, f"z3: {d}; cvc5: {d2}; z3-4.8: {d3}", attempts


def discharge(obligations, tier='quick', jobs=None, extra_axioms=()):
    """Returns dict index -> result dict."""
    texts = {}
    keys = []
    for i, ob in enumerate(obligations):
        g = z3.simplify(ob.goal)
        if z3.is_true(g):
            keys.append(None)
            continue
        text = to_smt2(obligation_formulas(ob, extra_axioms))
        h = hashlib.sha256(text.encode()).hexdigest()
        texts[h] = text
        keys.append(h)
    uniq = list(texts.items())
    results = {}
    if uniq:
        jobs = jobs or min(16, os.cpu_count() or 4)
        work = [(h, t, tier) for h, t in uniq]
        if len(work) == 1 or jobs == 1:
            outs = [solve_job(w) for w in work]
        else:
            ctx = mp.get_context('fork')
            with ctx.Pool(min(jobs, len(work))) as pool:
                outs = pool.map(solve_job, work, chunksize=1)
        for key, verdict, backend, secs, detail, attempts in outs:
            results[key] = dict(verdict=verdict, backend=backend, seconds=secs, detail=detail, attempts=attempts,
                                size=len(texts[key]))
    out = {}
    for i, k in enumerate(keys):
        if k is None:
            out[i] = dict(verdict='unsat', backend='trivial', seconds=0.0, detail='', attempts=[], size=0)
        else:
            out[i] = dict(results[k])
            out[i]['smt2_sha'] = k
    return out, texts
