"""The symbolic interpreter: executes the real function ASTs over symbolic values, one path per run.

Forking is done by re-execution: `Path.decide` follows a recorded decision trace and, when the trace is exhausted,
chooses the first feasible side and queues the other.  Loops are cut at invariants, calls to functions under contract
are replaced by the callee's contract, everything untranslatable raises OutOfSubset.
"""
import ast
import z3

from . import theory as T
from . import tys as TY
from .sv import (SV, NONE, NOTIMPL, MObj, Frame, Closure, BoundMethod, BuiltinRef, ReturnEx, BreakEx, ContinueEx,
                 SymRaise, PathEnd, OutOfSubset, StaleContract, mk_int, mk_bool, mk_real, mk_str, mk_bytes)

FEAS_TIMEOUT_MS = 400


class Obligation:
    __slots__ = ('name', 'pc', 'goal', 'hints', 'variant', 'note')

    def __init__(self, name, pc, goal, hints=None, variant='', note=''):
        self.name = name
        self.pc = list(pc)
        self.goal = goal
        self.hints = list(hints or [])
        self.variant = variant
        self.note = note


class Path:
    def __init__(self, trace=()):
        self.trace = list(trace)
        self.idx = 0
        self.pc = []
        self.alts = []
        self.obligations = []
        self.counter = 0
        self.hints = []          # extra ground facts (lemma instances) valid on this path
        self.warn_log = []       # ghost: warnings issued
        self.temp_guards = []    # assumptions in force only while a guarded sub-expression of a spec is evaluated
        self.events = None       # ghost: list of the objects whose `emits` contracts were called, in order (lazily created)
        self.events0 = None      # its value at the entry of the function under verification / of the call being applied
        self.yielded = None      # ghost list of yielded values (set by generator verification)
        self.notes = []
        self._solver = None

    def fresh_name(self, base):
        self.counter += 1
        return f"{base}!{self.counter}"

    def _feasible(self, cond, ignore_temp=False):
        s = z3.Solver()
        s.set('timeout', FEAS_TIMEOUT_MS)
        if ignore_temp and self.temp_guards:
            s.add(*[c for c in self.pc if not any(c is g for g in self.temp_guards)])
        else:
            s.add(*self.pc)
        s.add(cond)
        r = s.check()
        return r != z3.unsat

    def branch(self, n, conds=None):
        """Generic n-way choice; conds (optional) are the z3 conditions attached to each option."""
        if self.idx < len(self.trace):
            ch = self.trace[self.idx]
            self.idx += 1
            if ch == -1:
                # recorded dead end (no feasible option when this point was first explored): same outcome on replay
                raise PathEnd('no feasible branch')
        else:
            # a decision is a case split of the PATH: options are judged without the temporary guards of the spec
            # sub-expression being evaluated, so that an option that is impossible only under such a guard is still
            # explored (on that path the guarded sub-expression is vacuous) and the decision may stay on the path
            # unconditionally after the guard is dropped
            feas = []
            for i in range(n):
                if conds is None or self._feasible(conds[i], ignore_temp=True):
                    feas.append(i)
            if not feas:
                self.trace.append(-1)
                self.idx += 1
                raise PathEnd('no feasible branch')
            ch = feas[0]
            for alt in feas[1:]:
                self.alts.append(self.trace[:self.idx] + [alt])
            self.trace.append(ch)
            self.idx += 1
        if conds is not None:
            self.pc.append(conds[ch])
        return ch

    def decide(self, cond):
        cond = z3.simplify(cond)
        if z3.is_true(cond):
            return True
        if z3.is_false(cond):
            return False
        ch = self.branch(2, [cond, z3.Not(cond)])
        return ch == 0

    def assume(self, cond):
        self.pc.append(cond)

    def oblige(self, name, goal, note=''):
        self.obligations.append(Obligation(name, self.pc, goal, hints=self.hints, note=note))


def push_guard(path, g):
    path.pc.append(g)
    path.temp_guards.append(g)


def pop_guard(path, g):
    """remove the temporary assumption g (pushed with push_guard while a guarded sub-expression of a spec was
    evaluated).  Decisions taken meanwhile stay on the path: Path.branch judged their alternatives WITHOUT the
    temporary guards, so each is a complete case split of the path itself."""
    idx = max(i for i, c in enumerate(path.pc) if c is g)
    del path.pc[idx]
    for k_, t_ in enumerate(path.temp_guards):
        if t_ is g:
            del path.temp_guards[k_]
            break


def is_num(sv):
    return sv.kind in ('int', 'bool', 'real')


def as_int_term(sv):
    if sv.kind == 'int':
        return sv.t
    if sv.kind == 'bool':
        return z3.If(sv.t, z3.IntVal(1), z3.IntVal(0))
    raise OutOfSubset(f"expected int, got {sv.kind}")


def as_real_term(sv):
    if sv.kind == 'real':
        return sv.t
    if sv.kind in ('int', 'bool'):
        return z3.ToReal(as_int_term(sv))
    raise OutOfSubset(f"expected number, got {sv.kind}")


def const_int(t):
    t = z3.simplify(t)
    if z3.is_int_value(t):
        return t.as_long()
    return None


class Interp:
    def __init__(self, world, registry, path, fname='?'):
        self.world = world
        self.registry = registry
        self.path = path
        self.spec = False
        self.in_old = False
        self.old_map = {}         # id(MObj) -> fields snapshot used by old(...)
        self.fname = fname        # function under verification (for obligation names)
        self.depth = 0
        self.loop_counter = {}    # function qualname -> loops seen so far (ordinal)
        self.contract = None
        self.ghost = {}
        self.call_stack = []
        self.ghost_defs = {}
        self.comp_counter = {}

    # ------------------------------------------------------------------------------------------------------------
    # fresh values
    # ------------------------------------------------------------------------------------------------------------
    def fresh(self, ty, base='v'):
        """A fresh symbolic value of type descriptor ty."""
        p = self.path
        if ty == 'int':
            return mk_int(z3.Int(p.fresh_name(base)))
        if ty == 'bool':
            return mk_bool(z3.Bool(p.fresh_name(base)))
        if ty == 'real':
            return mk_real(z3.Real(p.fresh_name(base)))
        if ty == 'str':
            return mk_str(z3.String(p.fresh_name(base)))
        if ty == 'bytes':
            return mk_bytes(z3.Const(p.fresh_name(base), T.Bytes))
        if ty == 'none':
            return NONE
        if ty == 'odict':
            from .objects import fresh_odict
            return fresh_odict(self, base)
        if isinstance(ty, tuple):
            k = ty[0]
            if k == 'rec':
                classes = list(ty[1]) if isinstance(ty[1], (list, tuple)) else [ty[1]]
                o = z3.Const(p.fresh_name(base), TY.Obj)
                sv = SV('rec', o, cls=classes[0] if len(classes) == 1 else None, extra={'classes': classes})
                if len(classes) == 1:
                    p.assume(TY.cls_of(o) == TY.class_id(classes[0]))
                else:
                    p.assume(z3.Or(*[TY.cls_of(o) == TY.class_id(c) for c in classes]))
                return sv
            if k == 'list':
                lt = TY.list_theory(TY.smt_sort(ty[1]))
                return SV('slist', z3.Const(p.fresh_name(base), lt.sort), extra={'elem': ty[1]})
            if k == 'opt':
                isn = z3.Bool(p.fresh_name(base + '_isnone'))
                if p.decide(isn):
                    return NONE
                return self.fresh(ty[1], base)
            if k == 'tuple':
                return SV('tuple', tuple(self.fresh(t, base) for t in ty[1]))
            if k == 'mobj':
                return self.fresh_mobj(ty[1], base, ty[2] if len(ty) > 2 else None)
            if k == 'mdict':
                # a LOCAL dict with symbolic keys (e.g. open segment groups by APID): arrays over the key sort
                ks, vs = TY.smt_sort(ty[1]), TY.smt_sort(ty[2])
                return SV('mdict', {'has': z3.Array(p.fresh_name(base + '_has'), ks, z3.BoolSort()),
                                    'val': z3.Array(p.fresh_name(base + '_val'), ks, vs)},
                          extra={'key': ty[1], 'elem': ty[2]})
            if k == 'smap':
                # a dict from names to definition objects of the given class(es), e.g. XtcePacketDefinition.containers
                has = z3.Array(p.fresh_name(base + '_has'), z3.StringSort(), z3.BoolSort())
                val = z3.Array(p.fresh_name(base + '_val'), z3.StringSort(), TY.Obj)
                return SV('smap', {'has': has, 'val': val}, extra={'elem': ('rec', ty[1])})
            if k == 'odict':
                from .objects import fresh_odict
                od = fresh_odict(self, base)
                od.extra = dict(ty[1])
                return od
            if k == 'pval':
                return self.fresh_pval(ty[1], base)
            if k == 'ext':
                return SV('ext', ty[1], extra={})
            if k == 'clsref':
                return SV('cls', ty[1])
            if k == 'source':
                # E1: a finite source = fixed byte string T with read offset R
                Tt = z3.Const(p.fresh_name(base + '.T'), T.Bytes)
                R0 = z3.Int(p.fresh_name(base + '.R'))
                p.assume(z3.And(R0 >= 0, R0 <= T.blen(Tt)))
                if ty[1] == 'socket':
                    p.assume(R0 == 0)       # nothing has been received yet; T is everything the peer will ever send
                from . import externals
                externals.USED.add('E1')
                return SV('ext', 'source', extra={'source_kind': ty[1], 'T': mk_bytes(Tt), 'R': mk_int(R0)})
            if k == 'func':
                return SV('func', BuiltinRef('contractfunc:' + ty[1]), extra={'contract': ty[1],
                                                                             'id': z3.Const(p.fresh_name(base), TY.Obj)})
        raise OutOfSubset(f"cannot create fresh value of type {ty!r}")

    def fresh_mobj(self, cls, base='o', overrides=None):
        schema = dict(self.registry.schema(cls))
        schema.update(overrides or {})
        m = MObj(cls)
        for fld, fty in schema.items():
            m.fields[fld] = self.fresh(fty, f"{base}.{fld}")
        return SV('mobj', m, cls=cls)

    def fresh_pval(self, kinds, base='pv'):
        """A parsed parameter value of one of the listed classes; forks on the class."""
        kinds = list(kinds)
        if len(kinds) > 1:
            tag = z3.Int(self.path.fresh_name(base + '_tag'))
            ch = self.path.branch(len(kinds), [tag == i for i in range(len(kinds))])
        else:
            ch = 0
        spec = kinds[ch]
        if isinstance(spec, tuple):
            cname, rawkind = spec
        else:
            cname, rawkind = spec, None
        base_kind = TY.PVAL_KINDS[cname][0]
        v = self.fresh(base_kind, base)
        if rawkind is None or rawkind == 'same':
            raw = SV(v.kind, v.t)
        else:
            raw = self.fresh(rawkind, base + '_raw')
        return SV(v.kind, v.t, cls=cname, extra={'raw': raw})

    # ------------------------------------------------------------------------------------------------------------
    # helpers
    # ------------------------------------------------------------------------------------------------------------
    def oos(self, node, msg):
        line = getattr(node, 'lineno', '?')
        raise OutOfSubset(f"{msg} (line {line}: {ast.unparse(node)[:80] if isinstance(node, ast.AST) else node})")

    def raise_(self, exc_cls, node=None, payload=None):
        origin = f"line {getattr(node, 'lineno', '?')}" if node is not None else ''
        raise SymRaise(exc_cls, payload, origin)

    def as_bytes(self, sv):
        if sv.kind == 'bytes':
            return sv.t
        if sv.kind == 'mobj' and '__bytes__' in sv.t.fields:
            return self.read_field(sv.t, '__bytes__').t
        raise OutOfSubset(f"expected bytes, got {sv.kind}")

    def is_byteslike(self, sv):
        return sv.kind == 'bytes' or (sv.kind == 'mobj' and '__bytes__' in sv.t.fields)

    def read_field(self, m, name):
        if self.in_old and id(m) in self.old_map:
            return self.old_map[id(m)][name]
        return m.fields[name]

    def truth(self, sv, node=None):
        """z3 Bool for Python truthiness of sv."""
        k = sv.kind
        if k == 'bool':
            return sv.t
        if k == 'int':
            return sv.t != 0
        if k == 'real':
            return sv.t != 0
        if k == 'none':
            return z3.BoolVal(False)
        if k == 'bytes':
            return T.blen(sv.t) != 0
        if k == 'str':
            return z3.Length(sv.t) != 0
        if k == 'clist':
            return z3.BoolVal(len(sv.t) > 0)
        if k == 'tuple':
            return z3.BoolVal(len(sv.t) > 0)
        if k == 'slist':
            lt = TY.list_theory(TY.smt_sort(sv.extra['elem']))
            return lt.llen(sv.t) != 0
        if k == 'mobj':
            if '__bytes__' in sv.t.fields:
                return T.blen(self.read_field(sv.t, '__bytes__').t) != 0
            if '__items__' in sv.t.fields:
                return self.odict_len(self.read_field(sv.t, '__items__')) != 0
            return z3.BoolVal(True)
        if k in ('rec', 'func', 'cls', 'ext', 'exc'):
            return z3.BoolVal(True)
        if k == 'notimpl':
            return z3.BoolVal(True)
        if k == 'odict':
            return self.odict_len(sv) != 0
        self.oos(node, f"truthiness of {k}")

    def decide_truth(self, sv, node=None):
        return self.path.decide(self.truth(sv, node))

    # ------------------------------------------------------------------------------------------------------------
    # statements
    # ------------------------------------------------------------------------------------------------------------
    def exec_block(self, stmts, frame):
        for st in stmts:
            self.exec_stmt(st, frame)

    def exec_stmt(self, st, frame):
        m = getattr(self, 'st_' + type(st).__name__, None)
        if m is None:
            self.oos(st, f"statement {type(st).__name__}")
        return m(st, frame)

    def st_Expr(self, st, frame):
        if isinstance(st.value, ast.Constant) and isinstance(st.value.value, str):
            return  # docstring
        if isinstance(st.value, ast.JoinedStr):
            return  # f-string docstring
        self.eval(st.value, frame)

    def st_Pass(self, st, frame):
        return

    def st_Assign(self, st, frame):
        v = self.eval(st.value, frame)
        for tgt in st.targets:
            self.assign(tgt, v, frame)

    def st_AnnAssign(self, st, frame):
        if st.value is not None:
            self.assign(st.target, self.eval(st.value, frame), frame)

    def st_AugAssign(self, st, frame):
        cur = self.eval(self._as_load(st.target), frame)
        rhs = self.eval(st.value, frame)
        v = self.binop(st.op, cur, rhs, st)
        self.assign(st.target, v, frame)

    @staticmethod
    def _as_load(tgt):
        t2 = ast.parse(ast.unparse(tgt), mode='eval').body
        ast.copy_location(t2, tgt)
        for n in ast.walk(t2):
            if not hasattr(n, 'lineno'):
                n.lineno = getattr(tgt, 'lineno', 0)
        return t2

    def assign(self, tgt, v, frame):
        if isinstance(tgt, ast.Name):
            self.bind_name(frame, tgt.id, v)
        elif isinstance(tgt, ast.Tuple) or isinstance(tgt, ast.List):
            items = self.unpack(v, len(tgt.elts), tgt)
            for e, it in zip(tgt.elts, items):
                self.assign(e, it, frame)
        elif isinstance(tgt, ast.Attribute):
            obj = self.eval(tgt.value, frame)
            self.set_attr(obj, tgt.attr, v, tgt)
        elif isinstance(tgt, ast.Subscript):
            obj = self.eval(tgt.value, frame)
            key = self.eval(tgt.slice, frame)
            self.set_item(obj, key, v, tgt)
        else:
            self.oos(tgt, "assignment target")

    def bind_name(self, frame, name, v):
        # closures: assignment binds in the current frame (no `nonlocal` in the subset)
        frame.vars[name] = v
        con = self.contract
        if con is not None and not self.spec and name in con.hints_after and (frame.func or self.fname) == con.target:
            from .contract import add_hints
            add_hints(self, con.hints_after[name], frame)

    def unpack(self, v, n, node):
        if v.kind == 'tuple' or v.kind == 'clist':
            if len(v.t) != n:
                self.raise_('ValueError', node)
            return list(v.t)
        if v.kind == 'rec' and v.cls and self.registry.is_namedtuple(v.cls):
            flds = self.registry.namedtuple_fields(v.cls)
            if len(flds) != n:
                self.raise_('ValueError', node)
            return [self.get_attr(v, f, node) for f in flds]
        self.oos(node, f"unpacking of {v.kind}")

    def set_attr(self, obj, attr, v, node):
        if obj.kind == 'mobj':
            if self.spec:
                self.oos(node, "store in spec")
            obj.t.fields[attr] = v
            return
        if obj.kind == 'rec':
            # a store to an immutable (definition) object: always a frame violation
            self.path.oblige(f"{self.fname}:frame:immutable:{obj.cls or 'rec'}.{attr}", z3.BoolVal(False),
                             note=f"attribute store to a definition object at line {node.lineno}")
            return
        if obj.kind == 'valobj':
            obj.t['attrs'][attr] = v
            return
        if obj.kind == 'cls':
            self.path.oblige(f"{self.fname}:frame:class_state:{obj.t}.{attr}", z3.BoolVal(False),
                             note=f"class attribute store at line {node.lineno}")
            return
        self.oos(node, f"attribute store on {obj.kind}")

    def st_If(self, st, frame):
        c = self.eval(st.test, frame)
        if self.decide_truth(c, st.test):
            self.exec_block(st.body, frame)
        else:
            self.exec_block(st.orelse, frame)

    def st_Return(self, st, frame):
        v = self.eval(st.value, frame) if st.value is not None else NONE
        raise ReturnEx(v)

    def st_Break(self, st, frame):
        raise BreakEx()

    def st_Continue(self, st, frame):
        raise ContinueEx()

    def st_Raise(self, st, frame):
        if st.exc is None:
            cur = frame.lookup('__current_exc__')
            if cur is None:
                self.oos(st, "bare raise outside handler")
            raise SymRaise(cur.t[0], cur.t[1], f"line {st.lineno}")
        exc = self.eval_exc(st.exc, frame)
        raise SymRaise(exc.t[0], exc.t[1], f"line {st.lineno}")

    def eval_exc(self, node, frame):
        """Evaluate the operand of `raise`: messages are dropped, but raising sub-expressions of the message
        (subscripts and attribute reads inside f-strings) are still evaluated for their exceptions."""
        if isinstance(node, ast.Call):
            cname = self.exc_class_name(node.func, frame)
            if cname is not None:
                payload = {}
                for a in node.args:
                    self.eval_message(a, frame)
                for kw in node.keywords:
                    if kw.arg in ('partial_data',):
                        payload[kw.arg] = self.eval(kw.value, frame)
                    else:
                        self.eval_message(kw.value, frame)
                return SV('exc', (cname, payload))
        if isinstance(node, ast.Name):
            v = frame.lookup(node.id)
            if v is not None and v.kind == 'exc':
                return v
            cname = self.exc_class_name(node, frame)
            if cname is not None:
                return SV('exc', (cname, {}))
        self.oos(node, "raise operand")

    def exc_class_name(self, node, frame):
        name = ast.unparse(node)
        short = name.split('.')[-1]
        if isinstance(node, ast.Name) and frame.lookup(node.id) is not None:
            return None
        if short in self.world.exc_bases:
            return short
        return None

    def eval_message(self, node, frame):
        """Evaluate a message expression only for its possible exceptions (KeyError on packet[...], ...)."""
        for sub in ast.walk(node):
            if isinstance(sub, ast.FormattedValue) and isinstance(sub.value, (ast.Attribute, ast.Subscript)) and all(
                    isinstance(n, (ast.Name, ast.Attribute, ast.Subscript, ast.Constant, ast.Load)) for n in ast.walk(sub.value)):
                # a pure attribute / subscript chain inside an f-string: evaluated in full (properties may raise)
                try:
                    self.eval(sub.value, frame)
                except OutOfSubset:
                    pass
                continue
        for sub in ast.walk(node):
            if isinstance(sub, ast.Subscript):
                try:
                    base = self.eval(sub.value, frame)
                except OutOfSubset:
                    continue
                if base.kind in ('mobj', 'odict') and (base.kind == 'odict' or '__items__' in base.t.fields):
                    self.eval(sub, frame)

    def st_Try(self, st, frame):
        if st.finalbody:
            self.oos(st, "try/finally")
        try:
            self.exec_block(st.body, frame)
        except SymRaise as e:
            for h in st.handlers:
                names = []
                if h.type is None:
                    names = ['BaseException']
                elif isinstance(h.type, ast.Tuple):
                    names = [ast.unparse(x).split('.')[-1] for x in h.type.elts]
                else:
                    names = [ast.unparse(h.type).split('.')[-1]]
                if any(self.world.is_subclass_exc(e.exc_cls, n) for n in names):
                    excv = SV('exc', (e.exc_cls, e.payload))
                    if h.name:
                        frame.vars[h.name] = excv
                    saved = frame.vars.get('__current_exc__')
                    frame.vars['__current_exc__'] = excv
                    try:
                        self.exec_block(h.body, frame)
                    finally:
                        if saved is None:
                            frame.vars.pop('__current_exc__', None)
                        else:
                            frame.vars['__current_exc__'] = saved
                    return
            raise
        else:
            self.exec_block(st.orelse, frame)

    def st_FunctionDef(self, st, frame):
        qual = (frame.func + '.' if frame.func else '') + st.name
        frame.vars[st.name] = SV('func', Closure(st, frame, qual, frame.module, frame.cls))

    def st_With(self, st, frame):
        # only `with open(path, "rb") as f:` as an opaque resource bracket
        for item in st.items:
            ce = item.context_expr
            if isinstance(ce, ast.Call) and isinstance(ce.func, ast.Name) and ce.func.id == 'open':
                src = self.registry.model_open(self, ce, frame)
                if item.optional_vars is not None:
                    self.assign(item.optional_vars, src, frame)
            else:
                self.oos(st, "with statement")
        self.exec_block(st.body, frame)

    def st_Assert(self, st, frame):
        if frame.module == 'ghost':
            label = st.msg.value if isinstance(st.msg, ast.Constant) else f"line{st.lineno}"
            saved = self.spec
            c = self.eval(st.test, frame)
            self.path.oblige(f"{self.fname}:assert:{label}", self.truth(c, st.test))
            self.path.assume(self.truth(c, st.test))
            return
        c = self.eval(st.test, frame)
        if not self.decide_truth(c, st.test):
            self.raise_('AssertionError', st)

    # ---- loops ---------------------------------------------------------------------------------------------
    def loop_ordinal(self, frame):
        key = frame.func or self.fname
        n = self.loop_counter.get(key, 0)
        return key, n

    def assigned_names(self, stmts):
        names = set()
        for st in stmts:
            for n in ast.walk(st):
                if isinstance(n, ast.Name) and isinstance(n.ctx, ast.Store):
                    names.add(n.id)
                elif isinstance(n, (ast.FunctionDef, ast.Lambda)) and n is not st:
                    pass
        return names

    def st_While(self, st, frame):
        from .loops import exec_while
        exec_while(self, st, frame)

    def st_For(self, st, frame):
        from .loops import exec_for
        exec_for(self, st, frame)

    # ------------------------------------------------------------------------------------------------------------
    # expressions
    # ------------------------------------------------------------------------------------------------------------
    def eval(self, node, frame):
        m = getattr(self, 'ex_' + type(node).__name__, None)
        if m is None:
            self.oos(node, f"expression {type(node).__name__}")
        return m(node, frame)

    def ex_Constant(self, node, frame):
        v = node.value
        if v is None:
            return NONE
        if isinstance(v, bool):
            return mk_bool(v)
        if isinstance(v, int):
            return mk_int(v)
        if isinstance(v, float):
            import fractions
            return mk_real(z3.RealVal(str(fractions.Fraction(v))))
        if isinstance(v, str):
            return mk_str(v)
        if isinstance(v, bytes):
            return self.bytes_literal(v)
        if v is Ellipsis:
            return SV('ext', 'Ellipsis')
        self.oos(node, "constant")

    def bytes_literal(self, v):
        """A bytes literal: a named constant with its length and big-endian value pinned."""
        name = 'blit_' + v.hex() if len(v) <= 16 else 'blit_h' + str(hash(v) & 0xffffffff)
        if len(v) == 0:
            return mk_bytes(T.bempty)
        c = z3.Const(name, T.Bytes)
        facts = [T.blen(c) == len(v), T.be(c) == int.from_bytes(v, 'big'), T.le(c) == int.from_bytes(v, 'little')]
        for f in facts:
            if not any(f.eq(h) for h in self.path.hints):
                self.path.hints.append(f)
        return mk_bytes(c)

    def ex_JoinedStr(self, node, frame):
        # f-strings are opaque strings; raising sub-expressions are evaluated
        self.eval_message(node, frame)
        return mk_str(z3.String(self.path.fresh_name('fstr')))

    def ex_Name(self, node, frame):
        v = frame.lookup(node.id)
        if v is not None:
            return v
        if self.spec and node.id == 'out' and self.path.yielded is not None:
            return self.path.yielded
        if self.spec and self.contract is not None and node.id in self.ghost_defs:
            from .contract import parse_expr
            return self.eval(parse_expr(self.ghost_defs[node.id]), frame)
        v = self.registry.resolve_global(self, node.id, frame)
        if v is not None:
            return v
        if self.spec:
            raise StaleContract(f"name {node.id!r} does not resolve")
        self.oos(node, f"unresolved name {node.id}")

    def ex_NamedExpr(self, node, frame):
        v = self.eval(node.value, frame)
        self.assign(node.target, v, frame)
        return v

    def ex_Tuple(self, node, frame):
        return SV('tuple', tuple(self.eval(e, frame) for e in node.elts))

    def ex_List(self, node, frame):
        return SV('clist', [self.eval(e, frame) for e in node.elts])

    def ex_Set(self, node, frame):
        return SV('clist', [self.eval(e, frame) for e in node.elts], extra={'set': True})

    def ex_Dict(self, node, frame):
        if any(k is None for k in node.keys):
            self.oos(node, "dict unpacking")
        return SV('cdict', [(self.eval(k, frame), self.eval(v, frame)) for k, v in zip(node.keys, node.values)])

    def ex_IfExp(self, node, frame):
        c = self.eval(node.test, frame)
        if self.spec:
            ct = z3.simplify(self.truth(c))
            if z3.is_true(ct):
                return self.eval(node.body, frame)
            if z3.is_false(ct):
                return self.eval(node.orelse, frame)
            if getattr(self, 'spec_may_fork', True) and not getattr(self, 'in_quant', False):
                # conditional spec expressions over dynamically typed values: decide the condition on this path
                if self.path.decide(ct):
                    return self.eval(node.body, frame)
                return self.eval(node.orelse, frame)
            a = self.eval(node.body, frame)
            b = self.eval(node.orelse, frame)
            return self.ite_sv(ct, a, b, node)
        if self.decide_truth(c, node.test):
            return self.eval(node.body, frame)
        return self.eval(node.orelse, frame)

    def ite_sv(self, c, a, b, node=None):
        if z3.is_true(z3.simplify(c)):
            return a
        if z3.is_false(z3.simplify(c)):
            return b
        if a.kind == b.kind and a.kind in ('int', 'bool', 'real', 'bytes', 'str', 'rec'):
            return SV(a.kind, z3.If(c, a.t, b.t), cls=a.cls if a.cls == b.cls else None, extra=a.extra)
        if is_num(a) and is_num(b):
            if 'real' in (a.kind, b.kind):
                return mk_real(z3.If(c, as_real_term(a), as_real_term(b)))
            return mk_int(z3.If(c, as_int_term(a), as_int_term(b)))
        if a.kind == 'none' and b.kind == 'none':
            return NONE
        self.oos(node, f"ite over {a.kind}/{b.kind}")

    def ex_BoolOp(self, node, frame):
        if self.spec:
            # spec-mode and/or: operand i is evaluated under the assumption that the earlier operands did not decide
            # (so `is_none(x) or x.f > 0` and `cls_is(e, 'A') and e.a_field` are well formed), without forking
            ts = []
            is_and = isinstance(node.op, ast.And)
            pushed = []
            try:
                for vnode in node.values:
                    try:
                        t = z3.simplify(self.truth(self.eval(vnode, frame)))
                    except (OutOfSubset, StaleContract, SymRaise, PathEnd):
                        # ill-formed / dead only if this operand can be reached at all: under the guards pushed for the
                        # earlier operands the path condition may be contradictory, then the operand is unreachable and
                        # the result is decided by the earlier operands
                        if pushed and not self.path._feasible(z3.BoolVal(True)):
                            break
                        raise
                    if is_and and z3.is_false(t):
                        return mk_bool(False)
                    if not is_and and z3.is_true(t):
                        return mk_bool(True)
                    ts.append(t)
                    guard = t if is_and else z3.Not(t)
                    if not (z3.is_true(guard)):
                        push_guard(self.path, guard)
                        pushed.append(guard)
            finally:
                for g in reversed(pushed):
                    pop_guard(self.path, g)
            return mk_bool(z3.And(*ts) if is_and else z3.Or(*ts))
        last = None
        for i, vnode in enumerate(node.values):
            last = self.eval(vnode, frame)
            if i == len(node.values) - 1:
                return last
            t = self.decide_truth(last, vnode)
            if isinstance(node.op, ast.And) and not t:
                return last
            if isinstance(node.op, ast.Or) and t:
                return last
        return last

    def ex_UnaryOp(self, node, frame):
        v = self.eval(node.operand, frame)
        if isinstance(node.op, ast.Not):
            return mk_bool(z3.Not(self.truth(v, node)))
        if isinstance(node.op, ast.USub):
            if v.kind == 'real':
                return mk_real(-v.t)
            return mk_int(-as_int_term(v))
        if isinstance(node.op, ast.UAdd):
            return v
        self.oos(node, "unary op")

    def ex_BinOp(self, node, frame):
        a = self.eval(node.left, frame)
        b = self.eval(node.right, frame)
        return self.binop(node.op, a, b, node)

    def ex_Compare(self, node, frame):
        left = self.eval(node.left, frame)
        res = None
        for op, rnode in zip(node.ops, node.comparators):
            right = self.eval(rnode, frame)
            r = self.compare(op, left, right, node)
            if len(node.ops) == 1:
                return r
            if self.spec:
                res = r if res is None else mk_bool(z3.And(res.t, r.t))
            else:
                if not self.decide_truth(r, node):
                    return mk_bool(False)
                res = mk_bool(True)
            left = right
        return res

    def ex_Attribute(self, node, frame):
        obj = self.eval(node.value, frame)
        return self.get_attr(obj, node.attr, node, frame)

    def ex_Subscript(self, node, frame):
        obj = self.eval(node.value, frame)
        if isinstance(node.slice, ast.Slice):
            lo = self.eval(node.slice.lower, frame) if node.slice.lower is not None else None
            hi = self.eval(node.slice.upper, frame) if node.slice.upper is not None else None
            if node.slice.step is not None:
                self.oos(node, "slice step")
            return self.get_slice(obj, lo, hi, node)
        key = self.eval(node.slice, frame)
        return self.get_item(obj, key, node)

    def ex_Call(self, node, frame):
        from .calls import eval_call
        return eval_call(self, node, frame)

    def ex_Lambda(self, node, frame):
        return SV('func', Closure(node, frame, (frame.func or '') + '.<lambda>', frame.module, frame.cls))

    def ex_ListComp(self, node, frame):
        from .loops import eval_listcomp
        return eval_listcomp(self, node, frame)

    def ex_GeneratorExp(self, node, frame):
        # only meaningful as the argument of all/any/sum/list/tuple: handled in calls
        return SV('genexp', (node, frame))

    def ex_Yield(self, node, frame):
        v = self.eval(node.value, frame) if node.value is not None else NONE
        if getattr(self, 'yield_handler', None) is None:
            self.oos(node, "yield outside a generator under contract")
        self.yield_handler(self, v, node, frame)
        return NONE

    def ex_Starred(self, node, frame):
        self.oos(node, "starred expression")

    # ---- arithmetic ----------------------------------------------------------------------------------------
    def binop(self, op, a, b, node):
        from .ops import binop
        return binop(self, op, a, b, node)

    def compare(self, op, a, b, node):
        from .ops import compare
        return compare(self, op, a, b, node)

    def get_attr(self, obj, attr, node, frame=None):
        from .objects import get_attr
        return get_attr(self, obj, attr, node, frame)

    def get_item(self, obj, key, node):
        from .objects import get_item
        return get_item(self, obj, key, node)

    def set_item(self, obj, key, v, node):
        from .objects import set_item
        return set_item(self, obj, key, v, node)

    def get_slice(self, obj, lo, hi, node):
        from .objects import get_slice
        return get_slice(self, obj, lo, hi, node)

    def odict_len(self, sv):
        from .objects import odict_len
        return odict_len(self, sv)

    # ---- calling closures / methods by inlining ----------------------------------------------------------------
    def call_closure(self, clo, args, kwargs, node, self_sv=None):
        fn = clo.node
        if self.depth > 12:
            self.oos(node, f"inlining depth exceeded calling {clo.qualname}")
        newf = Frame(parent=clo.frame, module=clo.module, func=clo.qualname, cls=clo.cls)
        if isinstance(fn, ast.Lambda):
            params = fn.args
        else:
            params = fn.args
            if any(isinstance(n, (ast.Yield, ast.YieldFrom)) for n in ast.walk(fn)):
                self.oos(node, f"call of generator {clo.qualname} without a contract")
        allargs = list(args)
        if self_sv is not None:
            allargs = [self_sv] + allargs
        self.bind_params(params, allargs, kwargs, newf, clo, node)
        self.depth += 1
        saved_lc = self.loop_counter.get(clo.qualname)
        self.loop_counter[clo.qualname] = 0
        saved_spec = self.spec
        if clo.module == '__spec__':
            # a spec function (specs/oracles.py) called from a ghost program: its body is a spec expression
            self.spec = True
        try:
            if isinstance(fn, ast.Lambda):
                return self.eval(fn.body, newf)
            try:
                self.exec_block(fn.body, newf)
            except ReturnEx as r:
                return r.v
            return NONE
        finally:
            self.spec = saved_spec
            self.depth -= 1
            if saved_lc is not None:
                self.loop_counter[clo.qualname] = saved_lc

    def bind_params(self, params, args, kwargs, newf, clo, node):
        pos = [a.arg for a in params.posonlyargs + params.args]
        defaults = params.defaults
        kwonly = [a.arg for a in params.kwonlyargs]
        extra_pos, extra_kw = [], []
        if len(args) > len(pos):
            if not params.vararg:
                self.raise_('TypeError', node)
            extra_pos = list(args[len(pos):])
        bound = {}
        for name, v in zip(pos, args):
            bound[name] = v
        for kname, v in kwargs.items():
            if kname in bound:
                self.raise_('TypeError', node)
            if kname not in pos and kname not in kwonly:
                if not params.kwarg:
                    self.raise_('TypeError', node)
                extra_kw.append((mk_str(kname), v))
                continue
            bound[kname] = v
        if params.vararg:
            bound[params.vararg.arg] = SV('tuple', tuple(extra_pos))
        if params.kwarg:
            bound[params.kwarg.arg] = SV('cdict', extra_kw)
        ndef = len(defaults)
        for i, name in enumerate(pos):
            if name not in bound:
                di = i - (len(pos) - ndef)
                if di < 0:
                    self.raise_('TypeError', node)
                bound[name] = self.eval(defaults[di], clo.frame if clo.frame is not None else newf)
        for name, dnode in zip(kwonly, params.kw_defaults):
            if name not in bound:
                if dnode is None:
                    self.raise_('TypeError', node)
                bound[name] = self.eval(dnode, clo.frame if clo.frame is not None else newf)
        for name, v in bound.items():
            newf.vars[name] = v
