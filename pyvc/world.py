"""Source model: the real files under $SPP_REPO/space_packet_parser are parsed with `ast` on every run."""
import ast
import os

REPO = os.environ.get('SPP_REPO', '/repo')
PKG = 'space_packet_parser'

MODULE_FILES = {
    'packets': 'packets.py',
    'common': 'common.py',
    'exceptions': 'exceptions.py',
    'xarr': 'xarr.py',
    'cli': 'cli.py',
    'xtce': 'xtce/__init__.py',
    'xtce.encodings': 'xtce/encodings.py',
    'xtce.comparisons': 'xtce/comparisons.py',
    'xtce.calibrators': 'xtce/calibrators.py',
    'xtce.parameter_types': 'xtce/parameter_types.py',
    'xtce.parameters': 'xtce/parameters.py',
    'xtce.containers': 'xtce/containers.py',
    'xtce.definitions': 'xtce/definitions.py',
}

BUILTIN_EXC_BASES = {
    'BaseException': None, 'Exception': 'BaseException',
    'ValueError': 'Exception', 'TypeError': 'Exception', 'KeyError': 'LookupError', 'IndexError': 'LookupError',
    'LookupError': 'Exception', 'ArithmeticError': 'Exception', 'ZeroDivisionError': 'ArithmeticError',
    'OverflowError': 'ArithmeticError', 'AttributeError': 'Exception', 'NotImplementedError': 'RuntimeError',
    'RuntimeError': 'Exception', 'OSError': 'Exception', 'StopIteration': 'Exception',
    'UnicodeDecodeError': 'UnicodeError', 'UnicodeError': 'ValueError', 'struct.error': 'Exception',
    'AssertionError': 'Exception', 'ImportError': 'Exception',
}


class ClassInfo:
    def __init__(self, module, name, node):
        self.module = module
        self.name = name
        self.node = node
        self.qual = f"{module}.{name}"
        self.bases = []          # list of names as written (resolved lazily)
        self.methods = {}        # name -> FunctionDef
        self.attrs = {}          # name -> ast expr (class level assignments)
        self.decorators = {}     # method name -> list of decorator names
        for b in node.bases:
            self.bases.append(ast.unparse(b))
        for st in node.body:
            if isinstance(st, ast.FunctionDef):
                self.methods[st.name] = st
                self.decorators[st.name] = [ast.unparse(d) for d in st.decorator_list]
            elif isinstance(st, ast.Assign) and len(st.targets) == 1 and isinstance(st.targets[0], ast.Name):
                self.attrs[st.targets[0].id] = st.value
            elif isinstance(st, ast.AnnAssign) and isinstance(st.target, ast.Name) and st.value is not None:
                self.attrs[st.target.id] = st.value


class ModuleInfo:
    def __init__(self, name, path):
        self.name = name
        self.path = path
        with open(path) as fh:
            self.source = fh.read()
        self.tree = ast.parse(self.source, filename=path)
        self.functions = {}
        self.classes = {}
        self.assigns = {}
        self.imports = {}        # local name -> ('mod', dotted) | ('from', module dotted, attr)
        for st in self.tree.body:
            self._scan(st)

    def _scan(self, st):
        if isinstance(st, ast.FunctionDef):
            self.functions[st.name] = st
        elif isinstance(st, ast.ClassDef):
            self.classes[st.name] = ClassInfo(self.name, st.name, st)
        elif isinstance(st, ast.Assign) and len(st.targets) == 1 and isinstance(st.targets[0], ast.Name):
            self.assigns[st.targets[0].id] = st.value
        elif isinstance(st, ast.Import):
            for al in st.names:
                self.imports[al.asname or al.name.split('.')[0]] = ('mod', al.name if al.asname else al.name.split('.')[0])
        elif isinstance(st, ast.ImportFrom):
            for al in st.names:
                self.imports[al.asname or al.name] = ('from', st.module or '', al.name)
        elif isinstance(st, ast.Try):
            for s2 in st.body:
                self._scan(s2)


class World:
    def __init__(self, repo=None):
        self.repo = repo or REPO
        self.modules = {}
        for m, rel in MODULE_FILES.items():
            p = os.path.join(self.repo, PKG, rel)
            if os.path.exists(p):
                self.modules[m] = ModuleInfo(m, p)
        gp = os.path.join(os.path.dirname(os.path.dirname(os.path.abspath(__file__))), 'contracts', 'ghost_programs.py')
        if os.path.exists(gp):
            self.modules['ghost'] = ModuleInfo('ghost', gp)
        self.exc_bases = dict(BUILTIN_EXC_BASES)
        if 'exceptions' in self.modules:
            for cname, ci in self.modules['exceptions'].classes.items():
                self.exc_bases[cname] = ci.bases[0] if ci.bases else 'Exception'

    # ---- lookup ----------------------------------------------------------------------------------------------
    def pkg_module(self, dotted):
        """Map 'space_packet_parser.xtce.encodings' -> 'xtce.encodings' (or None)."""
        if dotted == PKG:
            return ''
        if dotted.startswith(PKG + '.'):
            rest = dotted[len(PKG) + 1:]
            if rest in self.modules:
                return rest
        return None

    def find_function(self, qual):
        """qual like 'packets._extract_bits', 'packets.RawPacketData.read_as_int',
        'xtce.encodings.FloatDataEncoding.__init__._mil_parse_func'.  Returns (module, class or None, FunctionDef)."""
        for m in sorted(self.modules, key=len, reverse=True):
            if qual.startswith(m + '.'):
                rest = qual[len(m) + 1:].split('.')
                mi = self.modules[m]
                cls = None
                node = None
                if rest[0] in mi.functions:
                    node = mi.functions[rest[0]]
                    rest = rest[1:]
                elif rest[0] in mi.classes and len(rest) >= 2 and rest[1] in mi.classes[rest[0]].methods:
                    cls = mi.classes[rest[0]]
                    node = cls.methods[rest[1]]
                    rest = rest[2:]
                else:
                    continue
                for nm in rest:       # nested defs
                    found = None
                    for sub in ast.walk(node):
                        if isinstance(sub, ast.FunctionDef) and sub.name == nm and sub is not node:
                            found = sub
                            break
                    if found is None:
                        return None
                    node = found
                return (m, cls, node)
        return None

    def find_class(self, name, module=None):
        """Resolve a class by bare or qualified name."""
        if '.' in name:
            for m in sorted(self.modules, key=len, reverse=True):
                if name.startswith(m + '.'):
                    cn = name[len(m) + 1:]
                    if cn in self.modules[m].classes:
                        return self.modules[m].classes[cn]
            # e.g. 'common.FloatParameter' or 'packets.RawPacketData' written relative to an import alias
            head, _, cn = name.rpartition('.')
            for m, mi in self.modules.items():
                if (m == head or m.endswith('.' + head)) and cn in mi.classes:
                    return mi.classes[cn]
            return None
        if module and name in self.modules[module].classes:
            return self.modules[module].classes[name]
        if module:
            imp = self.modules[module].imports.get(name)
            if imp and imp[0] == 'from':
                pm = self.pkg_module(imp[1])
                if pm is not None and pm in self.modules and imp[2] in self.modules[pm].classes:
                    return self.modules[pm].classes[imp[2]]
        for m, mi in self.modules.items():
            if name in mi.classes:
                return mi.classes[name]
        return None

    def mro(self, ci):
        """Linearisation good enough for the single/mixin inheritance used in the repo (C3 for these shapes =
        depth-first, left-to-right, duplicates keep last)."""
        out = []

        def visit(c):
            out.append(c)
            for b in c.bases:
                bc = self.find_class(b.split('(')[0], c.module)
                if bc is not None:
                    visit(bc)
        visit(ci)
        seen, res = set(), []
        for c in reversed(out):
            if c.qual not in seen:
                seen.add(c.qual)
                res.append(c)
        res.reverse()
        return res

    def builtin_base(self, ci):
        """The builtin base (bytes, dict, int, ...) of a class, if any."""
        for c in self.mro(ci):
            for b in c.bases:
                if b in ('bytes', 'dict', 'int', 'float', 'str'):
                    return b
        return None

    def find_method(self, ci, name, after=None):
        """(ClassInfo, FunctionDef) of the first class in the MRO (after class `after`, if given) defining `name`."""
        mro = self.mro(ci)
        if after is not None:
            idx = [c.qual for c in mro].index(after.qual)
            mro = mro[idx + 1:]
        for c in mro:
            if name in c.methods:
                return c, c.methods[name]
        return None

    def find_class_attr(self, ci, name):
        for c in self.mro(ci):
            if name in c.attrs:
                return c, c.attrs[name]
        return None

    def is_subclass_exc(self, name, handler):
        """Exception class `name` is `handler` or a subclass."""
        cur = name
        seen = 0
        while cur is not None and seen < 20:
            if cur == handler:
                return True
            cur = self.exc_bases.get(cur)
            seen += 1
        return False

    def class_is_subclass(self, ci, other_name):
        return any(c.name == other_name or c.qual == other_name for c in self.mro(ci))
