#!/opt/veriftools/pyvenv/bin/python
"""Entry point of every registered check:   python3-vt checks/check.py <Cxx> [--tier quick|thorough]

Exit codes: 0 held on everything decided (KNOWN-FINDING lines allowed) | 1 VIOLATION | 3 the checker itself failed.
Undecided functions (left the subset / stale contract) fall back to the bounded native stand-in and are reported in
the evidence as `bounded`, never as proved.
"""
import argparse
import concurrent.futures as cf
import hashlib
import json
import os
import re
import subprocess
import sys
import time
import traceback

VERIF = os.path.dirname(os.path.dirname(os.path.abspath(__file__)))
sys.path.insert(0, VERIF)

NATIVE_PY = '/venv/bin/python'


def load_props():
    out = {}
    for line in open(os.path.join(VERIF, 'properties.jsonl')):
        p = json.loads(line)
        out[p['id']] = p
    return out


def contracts_module_of(reg, target):
    import importlib
    for f in sorted(os.listdir(os.path.join(VERIF, 'contracts'))):
        if f.endswith('.py') and not f.startswith('_') and f != 'ghost_programs.py':
            mod = importlib.import_module('contracts.' + f[:-3])
            for c in getattr(mod, 'CONTRACTS', []):
                if c.target == target:
                    return 'contracts.' + f[:-3]
    return None


def run_native(modname, target, variant, seed, tier, budget, pid=None, deadline=None):
    env = dict(os.environ)
    env['PYTHONPATH'] = VERIF
    cmd = [NATIVE_PY, os.path.join(VERIF, 'pyvc', 'native.py'), 'search', modname, target, '--variant', variant,
           '--seed', str(seed), '--tier', tier, '--budget', str(budget)] + (['--prop', pid] if pid else []) + \
          (['--deadline', str(deadline)] if deadline else [])
    try:
        p = subprocess.run(cmd, capture_output=True, text=True, timeout=1200 if tier == 'thorough' else 300, env=env)
    except subprocess.TimeoutExpired:
        return dict(target=target, variant=variant, error='native search timed out', evaluations=0, accepted=0,
                    violations=[])
    try:
        return json.loads(p.stdout.strip().splitlines()[-1])
    except Exception:
        return dict(target=target, variant=variant, error=(p.stderr or p.stdout)[-800:], evaluations=0, accepted=0,
                    violations=[])


def ensure_conformance(tier):
    """axioms, lemma schemas and builtin models against CPython: re-run when the engine or spec sources changed since the
    last successful run (stamp under build/), and always in the thorough tier"""
    files = ['pyvc/theory.py', 'pyvc/tys.py', 'pyvc/ops.py', 'pyvc/calls.py', 'pyvc/objects.py', 'pyvc/interp.py',
             'pyvc/loops.py', 'pyvc/conformance.py', 'pyvc/conf_programs.py', 'specs/prims.py', 'specs/oracles.py']
    h = hashlib.sha256()
    for f in files:
        h.update(open(os.path.join(VERIF, f), 'rb').read())
    digest = h.hexdigest()
    stamp = os.path.join(VERIF, 'build', 'conformance.stamp')
    if tier != 'thorough' and os.path.exists(stamp) and open(stamp).read().strip() == digest:
        return 0
    cmd = [sys.executable, os.path.join(VERIF, 'pyvc', 'conformance.py')] + (['--quick'] if tier != 'thorough' else [])
    r = subprocess.run(cmd, cwd=VERIF)
    if r.returncode == 0:
        os.makedirs(os.path.dirname(stamp), exist_ok=True)
        with open(stamp, 'w') as fh:
            fh.write(digest)
    return r.returncode


def safe(s):
    return re.sub(r'[^A-Za-z0-9_.-]+', '_', s)[:150]


def main():
    ap = argparse.ArgumentParser()
    ap.add_argument('prop')
    ap.add_argument('--tier', default=os.environ.get('VERIF_TIER', 'quick'))
    ap.add_argument('--write-baseline', action='store_true')
    ap.add_argument('--no-native', action='store_true')
    ap.add_argument('--verbose', '-v', action='store_true')
    args = ap.parse_args()
    tier = args.tier if args.tier in ('quick', 'thorough') else 'quick'
    seed = int(os.environ.get('VERIF_SEED', '0') or 0)
    pid = args.prop
    t_start = time.time()
    try:
        rc = run_check(pid, tier, seed, args)
    except SystemExit:
        raise
    except Exception:
        traceback.print_exc()
        print(f"CHECKER-ERROR property={pid} (traceback above); no verdict", flush=True)
        rc = 3
    sys.exit(rc)


_W = {}


class ObSummary:
    """picklable summary of an obligation (z3 terms stay in the worker that generated them)"""

    def __init__(self, ob):
        import z3
        self.name = ob.name
        self.variant = ob.variant
        self.note = ob.note
        self.npc = len(ob.pc)
        try:
            self.goal_str = str(z3.simplify(ob.goal))[:300]
        except Exception:
            self.goal_str = '?'


def _verify_worker(idx):
    from pyvc.verify import verify_function
    from pyvc.prove import discharge
    con, vn = _W['jobs'][idx]
    t0 = time.time()
    r = verify_function(_W['world'], _W['reg'], con, vn)
    ts = time.time() - t0
    t1 = time.time()
    res, txt = discharge(r.obligations, tier=_W['tier'], jobs=_W['inner'])
    td = time.time() - t1
    obs = [ObSummary(ob) for ob in r.obligations]
    r.obligations = obs
    return idx, r, obs, res, txt, ts, td


def run_check(pid, tier, seed, args):
    from pyvc.world import World
    from pyvc.contract import Registry
    from pyvc.verify import verify_function
    from pyvc.prove import discharge
    from pyvc import report

    t0 = time.time()
    conf = ensure_conformance(tier)
    if conf != 0:
        print(f"CHECKER-ERROR property={pid} theory/interpreter conformance against CPython failed (see output above)")
        return 3
    props = load_props()
    if pid not in props:
        print(f"unknown property {pid}")
        return 3
    world = World()
    reg = Registry(world)
    reg.current_prop = pid
    known = report.load_known_findings()
    report.apply_known_exclusions(reg, known, pid)
    targets = [c for c in reg.contracts.values() if pid in c.props]
    if not targets:
        print(f"CHECKER-ERROR property={pid}: no contracts in its proof tree")
        return 3
    # ---- 1+2. symbolic execution of the real sources and discharge, one worker process per function variant -----------
    global _W
    jobs_fv = [(con, vn) for con in sorted(targets, key=lambda c: c.target) for vn in con.variant_names()]
    _W = dict(world=world, reg=reg, jobs=jobs_fv, tier=tier, inner=8)
    funcs = []
    all_obs = []
    results = {}
    texts = {}
    t_symex = t_solve = 0.0
    import multiprocessing as mp
    if len(jobs_fv) == 1:
        outs = [_verify_worker(0)]
    else:
        with cf.ProcessPoolExecutor(max_workers=min(16, len(jobs_fv)), mp_context=mp.get_context('fork')) as ex:
            outs = list(ex.map(_verify_worker, range(len(jobs_fv))))
    for idx, r, obs, res, txt, ts, td in sorted(outs, key=lambda o: o[0]):
        funcs.append(r)
        t_symex += ts
        t_solve += td
        for k, ob in enumerate(obs):
            results[len(all_obs)] = res[k]
            all_obs.append((r, ob))
        texts.update(txt)
    # lemmas over contracts (no code)
    lemma_obs = report.property_lemmas(reg, pid)
    if lemma_obs:
        lres, ltxt = discharge(lemma_obs, tier=tier)
        for k, ob in enumerate(lemma_obs):
            results[len(all_obs)] = lres[k]
            all_obs.append((None, ObSummary(ob)))
        texts.update(ltxt)
    # ---- 3. native side: cover witnesses for every function, refutation search where needed -----------------------
    native = {}
    t2 = time.time()
    if not args.no_native:
        jobs = []

        def _failed(r):
            return r.status not in ('ok', 'bounded_by_design') or any(
                results[i]['verdict'] != 'unsat' for i, (rr, _) in enumerate(all_obs) if rr is r)
        # when the deductive side is undecided or fails anywhere in this property's tree (never on a tree where every
        # obligation is discharged), the whole tree gets the deep generators of the thorough tier within a time limit:
        # the function that left the subset may have no harness of its own, its callers do
        tree_failed = any(_failed(r) for r in funcs)
        for r in funcs:
            con = reg.contracts[r.target]
            if con.native is None:
                continue
            failed = _failed(r)
            budget = (60000 if failed else 6000) if tier == 'quick' else (400000 if failed else 60000)
            if tree_failed and tier == 'quick':
                jobs.append((contracts_module_of(reg, r.target), r.target, r.variant, seed, 'thorough', 200000, pid, 150))
            else:
                jobs.append((contracts_module_of(reg, r.target), r.target, r.variant, seed, tier, budget, pid))
        with cf.ThreadPoolExecutor(max_workers=12) as ex:
            futs = {ex.submit(run_native, *j): j for j in jobs}
            for fu in cf.as_completed(futs):
                j = futs[fu]
                native[(j[1], j[2])] = fu.result()
    t_native = time.time() - t2
    # ---- 4. verdicts ------------------------------------------------------------------------------------------------
    rc = report.conclude(pid, tier, seed, props[pid], reg, funcs, all_obs, results, texts, native, known,
                         dict(symex=t_symex, solve=t_solve, native=t_native, total=time.time() - t0), args)
    return rc


if __name__ == '__main__':
    main()
