#!/opt/veriftools/pyvenv/bin/python
"""MANIFEST.setup_cmd: offline sanity of the tool chain the checks need; builds nothing outside /verif/build."""
import os
import subprocess
import sys

VERIF = os.path.dirname(os.path.dirname(os.path.abspath(__file__)))
sys.path.insert(0, VERIF)


def main():
    import z3
    print("z3 (python API)", z3.get_version_string())
    for cmd in (['/usr/bin/cvc5', '--version'], ['/usr/bin/z3', '--version']):
        p = subprocess.run(cmd, capture_output=True, text=True)
        print(cmd[0], (p.stdout or p.stderr).splitlines()[0])
    p = subprocess.run(['/venv/bin/python', '-c', 'import space_packet_parser, sys; print(space_packet_parser.__file__)'],
                       capture_output=True, text=True)
    print("repo package under /venv/bin/python:", p.stdout.strip() or p.stderr.strip()[-300:])
    if p.returncode != 0:
        return 1
    os.makedirs(os.path.join(VERIF, 'build'), exist_ok=True)
    # the arithmetic axioms as Lean theorems (cold start ~3 min because Mathlib's .olean files come off disk)
    import hashlib
    lf = os.path.join(VERIF, 'lean', 'PyVC.lean')
    stamp = os.path.join(VERIF, 'build', 'lean.stamp')
    digest = hashlib.sha256(open(lf, 'rb').read()).hexdigest()
    if not (os.path.exists(stamp) and open(stamp).read().strip() == digest):
        r = subprocess.run(['lean', lf], cwd=VERIF, capture_output=True, text=True)
        print("lean lean/PyVC.lean ->", r.returncode, (r.stdout + r.stderr)[-500:])
        if r.returncode != 0:
            return 1
        with open(stamp, 'w') as fh:
            fh.write(digest)
    # theory conformance (axioms and builtin models against CPython)
    conf = os.path.join(VERIF, 'pyvc', 'conformance.py')
    if os.path.exists(conf):
        r = subprocess.run([sys.executable, conf, '--quick'], cwd=VERIF)
        if r.returncode != 0:
            print("conformance failed")
            return 1
    return 0


if __name__ == '__main__':
    sys.exit(main())
