"""Spec functions (oracles).  One text, two uses: executed as ordinary Python by the native replay harness (with
specs.prims), and translated by the pyvc front end (spec mode) for the prover.  Keep every function a single
expression over the primitives (`be sl cat low shr pow2 tb tl ...`), `ite`, `implies`, arithmetic and comparisons."""
from specs.prims import *  # noqa: F401,F403


def bits(B, p, n):
    """Unsigned big-endian value of bits p..p+n-1 of B (bit 0 = MSB of byte 0).  Property C03's oracle."""
    return low(shr(be(B), 8 * len(B) - p - n), n)


def ceil8(n):
    return (n + 7) // 8


def inside(B, p, n):
    return p >= 0 and n >= 0 and p + n <= 8 * len(B)


def twos(u, n):
    """two's-complement reading of the n-bit unsigned value u"""
    return ite(u >= pow2(n - 1), u - pow2(n), u)


def int_decode(u, n, enc, order):
    """C04: value of an integer field whose n bits, read big-endian and unsigned, are u"""
    return ite(enc == 'unsigned', byte_ordered(u, n, order), twos(byte_ordered(u, n, order), n))


def byte_ordered(u, n, order):
    """honour the declared byte order: least-significant-byte-first fields are the little-endian value of their bytes"""
    return ite(order == 'leastSignificantByteFirst', le(tb(u, ceil8(n))), u)


# ---- lemma schemas (instantiated explicitly through contract `hints`; each is checked concretely by
# ---- pyvc/conformance.py on random arguments and stated in lean/PyVC.lean) ------------------------------------------

@axiom
def bits_prefix(B, m, p, n):
    """bits inside the first m bytes of B are the bits of that prefix"""
    return implies(0 <= p and 0 <= n and p + n <= 8 * m and m <= len(B),
                   bits(B, p, n) == low(shr(be(sl(B, 0, m)), 8 * m - p - n), n))
