"""Spec functions (oracles).  One text, two uses: executed as ordinary Python by the native replay harness (with
specs.prims), and translated by the pyvc front end (spec mode) for the prover.  Keep every function a single
expression over the primitives (`be sl cat low shr pow2 tb tl ...`), `ite`, `implies`, arithmetic and comparisons."""
from specs.prims import *  # noqa: F401,F403


@opaque('bytes', 'int', 'int', 'int')
def bits(B, p, n):
    """Unsigned big-endian value of bits p..p+n-1 of B (bit 0 = MSB of byte 0).  Property C03's oracle.
    Opaque: only the proofs that list it under `reveal` see the definition; everyone else uses the lemmas below."""
    return low(shr(be(B), 8 * len(B) - p - n), n)


def ceil8(n):
    return (n + 7) // 8


def inside(B, p, n):
    return p >= 0 and n >= 0 and p + n <= 8 * len(B)


def twos(u, n):
    """two's-complement reading of the n-bit unsigned value u"""
    return ite(u >= pow2(n - 1), u - pow2(n), u)


def int_decode(u, n, enc, order):
    """C04: value of an integer field whose n bits, read big-endian and unsigned, are u"""
    return ite(enc == 'unsigned', byte_ordered(u, n, order), twos(byte_ordered(u, n, order), n))


def byte_ordered(u, n, order):
    """honour the declared byte order: least-significant-byte-first fields are the little-endian value of their bytes"""
    return ite(order == 'leastSignificantByteFirst', le(tb(u, ceil8(n))), u)


# ---- match criteria (C06) ----------------------------------------------------------------------------------------------

def valid_op(op):
    """the accepted operator spellings"""
    return (op == '==' or op == 'eq' or op == '!=' or op == 'neq' or op == '&lt;' or op == 'lt' or op == '<'
            or op == '&gt;' or op == 'gt' or op == '>' or op == '&lt;=' or op == 'leq' or op == '<='
            or op == '&gt;=' or op == 'geq' or op == '>=')


def sem_rel(op, a, b):
    """the six mathematical relations in every accepted spelling"""
    return ite(op == '==' or op == 'eq', a == b,
               ite(op == '!=' or op == 'neq', a != b,
                   ite(op == '&lt;' or op == 'lt' or op == '<', a < b,
                       ite(op == '&gt;' or op == 'gt' or op == '>', a > b,
                           ite(op == '&lt;=' or op == 'leq' or op == '<=', a <= b, a >= b)))))


def selected_value(c, packet, cur):
    """the calibrated or raw value of the referenced parameter as selected; the current raw value when the parameter
    is not in the packet yet"""
    return ((packet[c.referenced_parameter] if c.use_calibrated_value else packet[c.referenced_parameter].raw_value)
            if c.referenced_parameter in packet else cur)


def sem_comparison(c, packet, cur):
    """truth of one Comparison: the relation applied to the selected value and the literal read in that value's type"""
    return sem_rel(c.operator, selected_value(c, packet, cur), coerce_like(selected_value(c, packet, cur), c.required_value))


@opaque('rec', 'packet', 'cur', 'bool')
def sem_cmp(c, packet, cur):
    """denotation of a Comparison object as a closed term (opaque to clients; revealed in Comparison.evaluate's proof)"""
    return sem_comparison(c, packet, cur)


def cond_side(packet, name, use_calibrated):
    return packet[name] if use_calibrated else packet[name].raw_value


def cond_right(c, packet):
    """right operand of a Condition: the other parameter as selected, or the fixed value read in the LEFT operand's type"""
    return (coerce_like(cond_side(packet, c.left_param, c.left_use_calibrated_value), c.right_value)
            if is_none(c.right_param) else cond_side(packet, c.right_param, c.right_use_calibrated_value))


def sem_condition(c, packet):
    return sem_rel(c.operator, cond_side(packet, c.left_param, c.left_use_calibrated_value), cond_right(c, packet))


@opaque('rec', 'packet', 'bool')
def sem_cond(c, packet):
    """denotation of a Condition object (opaque to clients; revealed in Condition.evaluate's proof)"""
    return sem_condition(c, packet)


@uninterpreted('rec', 'packet', 'bool')
def sem_and(a, packet):
    """ANDed group: all its conditions hold and all its nested ORed groups hold"""
    return all(sem_cond(c, packet) for c in a.conditions) and all(sem_or(o, packet) for o in a.ors)


@uninterpreted('rec', 'packet', 'bool')
def sem_or(o, packet):
    """ORed group: one of its conditions holds or one of its nested ANDed groups holds"""
    return any(sem_cond(c, packet) for c in o.conditions) or any(sem_and(a, packet) for a in o.ands)


@axiom
def sem_and_def(a, packet):
    return sem_and(a, packet) == (forall(lambda i: sem_cond(at(a.conditions, i), packet), 0, len(a.conditions)) and
                                  forall(lambda i: sem_or(at(a.ors, i), packet), 0, len(a.ors)))


@axiom
def sem_or_def(o, packet):
    return sem_or(o, packet) == (exists(lambda i: sem_cond(at(o.conditions, i), packet), 0, len(o.conditions)) or
                                 exists(lambda i: sem_and(at(o.ands, i), packet), 0, len(o.ands)))


@opaque('rec', 'packet', 'bool')
def sem_bexp(b, packet):
    """denotation of a BooleanExpression object (single condition, ANDed group or ORed group)"""
    return (sem_cond(b.expression, packet) if cls_is(b.expression, 'Condition') else
            (sem_and(b.expression, packet) if cls_is(b.expression, 'Anded') else sem_or(b.expression, packet)))


def sem_crit(c, packet, cur):
    """truth of one match criterion of a criteria list (Comparison or BooleanExpression)"""
    return sem_cmp(c, packet, cur) if cls_is(c, 'Comparison') else sem_bexp(c, packet)


@uninterpreted('rec', 'packet', 'cur', 'bool')
def ctx_match(cc, packet, cur):
    """all criteria of a context calibrator hold (a list is a conjunction)"""
    return all(sem_crit(c, packet, cur) for c in cc.match_criteria)


@axiom
def ctx_match_def(cc, packet, cur):
    return ctx_match(cc, packet, cur) == forall(lambda j: sem_crit(at(cc.match_criteria, j), packet, cur), 0,
                                                len(cc.match_criteria))


@uninterpreted('rec', 'packet', 'cur', 'bool')
def dl_match(dl, packet, cur):
    """all criteria of a discrete lookup entry hold"""
    return all(sem_cmp(c, packet, cur) for c in dl.match_criteria)


@axiom
def dl_match_def(dl, packet, cur):
    return dl_match(dl, packet, cur) == forall(lambda j: sem_cmp(at(dl.match_criteria, j), packet, cur), 0,
                                               len(dl.match_criteria))


# ---- calibration (C08) ----------------------------------------------------------------------------------------------------

def chord(p0, p1, q):
    """value at q of the line through spline points p0 and p1"""
    return (p1.calibrated - p0.calibrated) / (p1.raw - p0.raw) * (q - p0.raw) + p0.calibrated


@uninterpreted('rec', 'bytes', 'real')
def float_field(enc, field_bytes):
    """value of a float field from its bytes (as extracted, big-endian) for encoding object enc: IEEE-754 via
    struct.unpack (E2) or MIL-STD-1750A"""
    from specs.refsem import ref_float_raw
    return ref_float_raw(enc, field_bytes)


def mil1750a(w):
    """MIL-STD-1750A 32-bit float from its big-endian word: 24-bit two's-complement mantissa (sign included) scaled by
    2 ** (8-bit two's-complement exponent - 23)"""
    return twos(low(shr(w, 8), 24), 24) * 2.0 ** (twos(low(w, 8), 8) - 23)


@axiom
def float_field_mil(enc, b):
    """what float_field means for MIL-STD-1750A encodings, in either byte order"""
    return (implies(enc.encoding == 'MILSTD_1750A' and len(b) == 4 and enc.byte_order == 'leastSignificantByteFirst',
                    float_field(enc, b) == mil1750a(le(b))) and
            implies(enc.encoding == 'MILSTD_1750A' and len(b) == 4 and enc.byte_order != 'leastSignificantByteFirst',
                    float_field(enc, b) == mil1750a(be(b))))


@axiom
def float_field_ieee(enc, b):
    """... and for IEEE encodings: struct.unpack (E2) with the format string fixed at construction"""
    return implies(enc.encoding != 'MILSTD_1750A', feq(float_field(enc, b), ieee(enc._struct_format, b)))


def no_ctx_match(enc, packet, cur, n):
    """none of the first n context calibrators of the encoding matches"""
    return forall(lambda k: not ctx_match(at(enc.context_calibrators, k), packet, cur), 0, n)


def spline_ok(c):
    """shape invariant of a spline calibrator (sorted by raw on construction; orders above 1 are rejected)"""
    return (len(c.points) >= 1 and (c.order == 0 or c.order == 1) and (c.order == 0 or len(c.points) >= 2) and
            forall(lambda i: forall(lambda j: at(c.points, i).raw < at(c.points, j).raw, i + 1, len(c.points)),
                   0, len(c.points)))


def cal_ok(c):
    return spline_ok(c) if cls_is(c, 'SplineCalibrator') else True


def spline_rel(c, x, y):
    """y is the order-0 / order-1 interpolation of spline c at x (closed range; extrapolation outside)"""
    return ((implies(c.order == 0 and at(c.points, 0).raw <= x and x <= at(c.points, len(c.points) - 1).raw,
                     exists(lambda i: at(c.points, i).raw <= x and (i == len(c.points) - 1 or x < at(c.points, i + 1).raw)
                            and y == at(c.points, i).calibrated, 0, len(c.points)))) and
            (implies(c.order == 1 and at(c.points, 0).raw <= x and x <= at(c.points, len(c.points) - 1).raw,
                     exists(lambda i: at(c.points, i).raw <= x and
                            ((i == len(c.points) - 1 and y == at(c.points, i).calibrated) or
                             (i < len(c.points) - 1 and x < at(c.points, i + 1).raw and
                              y == chord(at(c.points, i), at(c.points, i + 1), x))), 0, len(c.points)))))


def cal_raises(c, x):
    """calibration fails (CalibrationError) exactly for a spline queried outside its closed range without extrapolation"""
    return (cls_is(c, 'SplineCalibrator') and not c.extrapolate and
            not (at(c.points, 0).raw <= x and x <= at(c.points, len(c.points) - 1).raw))


@opaque('rec', 'real', 'real', 'bool')
def is_calibration(c, x, y):
    """y is what calibrator c prescribes for the raw value x (opaque to clients; revealed in the calibrators' proofs)"""
    return (y == poly_value(c.coefficients, x)) if cls_is(c, 'PolynomialCalibrator') else spline_rel(c, x, y)


def poly_value(coeffs, x):
    """sum of a_i * x ** n_i over the coefficient list (real arithmetic, S3)"""
    return sum([c.coefficient * rpow(toreal(x), c.exponent) for c in coeffs])


# ---- container inheritance (C05) ------------------------------------------------------------------------------------------

@uninterpreted('rec', 'packet', 'bool')
def rc_match(container, packet):
    """all restriction criteria of a container hold for the values decoded so far (an empty list holds vacuously)"""
    return all(sem_crit(c, packet, None) for c in container.restriction_criteria)


@axiom
def rc_match_def(container, packet):
    return rc_match(container, packet) == forall(lambda j: sem_crit(at(container.restriction_criteria, j), packet, None),
                                                 0, len(container.restriction_criteria))


@uninterpreted('rec', 'smap', 'packet', 'int', 'int')
def nvalid(container, containers, packet, i):
    """how many of the first i inheritors of `container` have all their restriction criteria satisfied"""
    return sum(1 for name in container.inheritors[:i] if rc_match(containers[name], packet))


@axiom
def nvalid_zero(container, containers, packet):
    return nvalid(container, containers, packet, 0) == 0


@axiom
def nvalid_step(container, containers, packet, i):
    return implies(0 <= i and i < len(container.inheritors),
                   nvalid(container, containers, packet, i + 1) == nvalid(container, containers, packet, i) +
                   (1 if rc_match(containers[at(container.inheritors, i)], packet) else 0))


# ---- computed field lengths (C07) -----------------------------------------------------------------------------------------

def trunc(x):
    """int(x) of a real: truncation toward zero"""
    return int(x)


def first_lookup_value(lookups, packet, i):
    """entry i is the FIRST entry of the list whose criteria all hold"""
    return dl_match(at(lookups, i), packet, None) and forall(lambda k: not dl_match(at(lookups, k), packet, None), 0, i)


@axiom
def pow2_add(a, b):
    return implies(a >= 0 and b >= 0, pow2(a + b) == pow2(a) * pow2(b))


# ---- framing (C02 / C10): record boundaries of a byte stream -----------------------------------------------------------

def declared_len(T, a):
    """value of the 16-bit length field of a packet whose primary header starts at byte a (0 when no whole header)"""
    return ite(a >= 0 and a + 6 <= len(T), bits(T, 8 * a + 32, 16), 0)


@uninterpreted('bytes', 'int', 'int', 'int')
def fb(T, k, j):
    """absolute byte offset at which record j (k foreign prefix bytes + one packet) of stream T starts"""
    pos = 0
    for _ in range(j):
        pos = pos + k + 7 + declared_len(T, pos + k)
    return pos


def complete(T, k, j):
    """record j lies entirely inside T"""
    return fb(T, k, j) + k + 6 <= len(T) and fb(T, k, j + 1) <= len(T)


@axiom
def fb_zero(T, k):
    return fb(T, k, 0) == 0


@axiom
def fb_step(T, k, j):
    return implies(j >= 0, fb(T, k, j + 1) == fb(T, k, j) + k + 7 + declared_len(T, fb(T, k, j) + k))


# ---- validity of the definition objects the decoders are handed (the preconditions of the parse_value contracts) --------

def num_ok(e):
    return (e.size_in_bits >= 1 and (is_none(e.default_calibrator) or cal_ok(e.default_calibrator)) and
            (is_none(e.context_calibrators) or
             forall(lambda k: cal_ok(at(e.context_calibrators, k).calibrator), 0, len(e.context_calibrators))))


def enc_ok(e):
    """shape invariants the proved parse_value contracts require"""
    return (implies(cls_is(e, 'IntegerDataEncoding'),
                    num_ok(e) and (e.encoding == 'unsigned' or e.encoding == 'signed' or e.encoding == 'twosComplement' or
                                  e.encoding == 'twosCompliment')) and
            implies(cls_is(e, 'FloatDataEncoding'), num_ok(e) and cap(e.parse_func, 'self') == e) and
            implies(cls_is(e, 'StringDataEncoding'),
                    is_none(e.length_linear_adjuster) or (is_none(e.fixed_length) and not is_none(e.dynamic_length_reference))) and
            implies(cls_is(e, 'BinaryDataEncoding'),
                    is_none(e.linear_adjuster) or (is_none(e.fixed_size_in_bits) and not is_none(e.size_reference_parameter))))


@opaque('rec', 'bool')
def param_ok(p):
    """the parameter's type is a plain, boolean or integer-encoded enumerated parameter type and its encoding satisfies the shape invariants that the
    proved parse_value contracts require (opaque to the walk; revealed in Parameter.parse's proof)"""
    return ((cls_is(p.parameter_type, 'IntegerParameterType') or cls_is(p.parameter_type, 'FloatParameterType') or
             cls_is(p.parameter_type, 'StringParameterType') or cls_is(p.parameter_type, 'BinaryParameterType') or
             cls_is(p.parameter_type, 'BooleanParameterType') or
             cls_is(p.parameter_type, 'AbsoluteTimeParameterType') or cls_is(p.parameter_type, 'RelativeTimeParameterType') or
             (cls_is(p.parameter_type, 'EnumeratedParameterType') and
              cls_is(p.parameter_type.encoding, 'IntegerDataEncoding'))) and
            enc_ok(p.parameter_type.encoding))


@uninterpreted('rec', 'bool')
def entries_ok(container):
    """every parameter reachable through the entry list (nested containers included) is param_ok"""
    return all(param_ok(e) if cls_is(e, 'Parameter') else entries_ok(e) for e in container.entry_list)


@axiom
def entries_ok_def(container):
    return entries_ok(container) == forall(
        lambda i: implies(cls_is(at(container.entry_list, i), 'Parameter'), param_ok(at(container.entry_list, i))) and
        implies(cls_is(at(container.entry_list, i), 'SequenceContainer'), entries_ok(at(container.entry_list, i))),
        0, len(container.entry_list))


@uninterpreted('rec', 'bool')
def defn_ok(definition):
    """every container of the definition is entries_ok"""
    return all(entries_ok(c) for c in definition.containers.values())


@axiom
def defn_ok_at(definition, name):
    return implies(defn_ok(definition) and name in definition.containers, entries_ok(definition.containers[name]))


# ---- the entry-list walk (C05 / C14): the parameters of a container in decoding order -------------------------------------

@uninterpreted('rec', 'int', ('list', ('rec', ['Parameter'])))
def flat_upto(container, i):
    """the Parameter objects decoded by the first i entries of the container's entry list, in order, nested container
    references expanded in place"""
    out = []
    for e in container.entry_list[:i]:
        out = out + ([e] if cls_is(e, 'Parameter') else flat_upto(e, len(e.entry_list)))
    return out


def flat(container):
    return flat_upto(container, len(container.entry_list))


@axiom
def flat_zero(container):
    return len(flat_upto(container, 0)) == 0


@axiom
def flat_step_parameter(container, i):
    return implies(0 <= i and i < len(container.entry_list) and cls_is(at(container.entry_list, i), 'Parameter'),
                   flat_upto(container, i + 1) == append(flat_upto(container, i), at(container.entry_list, i)))


@axiom
def flat_step_container(container, i):
    return implies(0 <= i and i < len(container.entry_list) and cls_is(at(container.entry_list, i), 'SequenceContainer'),
                   flat_upto(container, i + 1) == lcat(flat_upto(container, i), flat(at(container.entry_list, i))))


# ---- reassembly of segmented packets (C12) ------------------------------------------------------------------------------

def tail_of(b, h):
    """a packet without its first h bytes (h >= 0; nothing when the packet is shorter)"""
    return sl(b, h if h <= len(b) else len(b), len(b))


@uninterpreted(('list', 'bytes'), 'int', 'int', 'bytes')
def tails(segs, n, h):
    """packets 1 .. n-1 of segs, each without its first h bytes, concatenated in order"""
    out = b''
    for q in range(1, n):
        out = out + bytes(segs[q])[h:]
    return out


@axiom
def tails_base(segs, h):
    return len(tails(segs, 1, h)) == 0


@axiom
def tails_step(segs, n, h):
    return implies(1 <= n and n < len(segs) and h >= 0,
                   tails(segs, n + 1, h) == cat(tails(segs, n, h), tail_of(at(segs, n), h)))


def in_sequence(segs):
    """consecutive sequence counts modulo 16384"""
    return forall(lambda q: (bits(at(segs, q + 1), 18, 14) - bits(at(segs, q), 18, 14)) % 16384 == 1, 0, len(segs) - 1)


def combined(segs, h):
    """the whole first packet followed by every later packet without its first h bytes"""
    return cat(at(segs, 0), tails(segs, len(segs), h))


# ---- lemma schemas (instantiated explicitly through contract `hints`; each is checked concretely by
# ---- pyvc/conformance.py on random arguments and stated in lean/PyVC.lean) ------------------------------------------

@axiom
def bits_prefix(B, m, p, n):
    """bits inside the first m bytes of B are the bits of that prefix"""
    return implies(0 <= p and 0 <= n and p + n <= 8 * m and m <= len(B),
                   bits(B, p, n) == low(shr(be(sl(B, 0, m)), 8 * m - p - n), n))


@axiom
def bits_slice(B, lo, hi, p, n):
    """bits of a slice are the bits of the whole at the shifted position"""
    return implies(0 <= lo and lo <= hi and hi <= len(B) and 0 <= p and 0 <= n and p + n <= 8 * (hi - lo),
                   bits(sl(B, lo, hi), p, n) == bits(B, 8 * lo + p, n))


@axiom
def bits_range(B, p, n):
    return implies(n >= 0, 0 <= bits(B, p, n) and bits(B, p, n) < pow2(n))
