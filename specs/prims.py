"""Concrete (executable) definitions of the spec primitives.  These ARE the definitions the abstract theory in
pyvc/theory.py axiomatises; pyvc/conformance.py checks every axiom against them on every run, and the native replay
harness evaluates contract clauses with them."""
from fractions import Fraction


def shr(x, a):
    return x >> a if a >= 0 else x << (-a)


def low(x, a):
    return x % (1 << a) if a >= 0 else 0


def pow2(a):
    return 1 << a if a >= 0 else Fraction(1, 1 << (-a))


def band(x, y):
    return x & y


def bor(x, y):
    return x | y


def be(b):
    return int.from_bytes(bytes(b), 'big')


def le(b):
    return int.from_bytes(bytes(b), 'little')


def sl(b, lo, hi):
    return bytes(b)[lo:hi]


def cat(a, b):
    return bytes(a) + bytes(b)


def tb(v, k):
    return int(v).to_bytes(k, 'big')


def tl(v, k):
    return int(v).to_bytes(k, 'little')


def bat(b, i):
    return bytes(b)[i]


def bfind(b, sub):
    return bytes(b).find(bytes(sub))


def rpow(x, n):
    from fractions import Fraction
    return Fraction(x) ** n


def rpow2(n):
    return 2.0 ** n


def toreal(x):
    from fractions import Fraction
    return Fraction(x)


i2r = toreal


def is_int_valued(x):
    return float(x).is_integer()


def at(seq, i):
    return seq[i]


def cap(f, name):
    """the value of the variable `name` captured by the closure f"""
    return f.__closure__[f.__code__.co_freevars.index(name)].cell_contents


def feq(x, y):
    """equality of two float values as VALUES (the prover's reals have no NaN; natively two NaNs are the same value)"""
    return (x != x and y != y) or x == y


def ieee(fmt, b):
    import struct
    return struct.unpack(fmt, bytes(b))[0]


def lcat(a, b):
    return list(a) + list(b)


def append(seq, x):
    return list(seq) + [x]


def implies(a, b):
    return (not a) or bool(b)


def ite(c, a, b):
    return a if c else b


def forall(f, lo=None, hi=None):
    return all(f(i) for i in range(lo, hi))


def exists(f, lo=None, hi=None):
    return any(f(i) for i in range(lo, hi))


def decode(b, enc):
    return bytes(b).decode(enc)


def decodable(b, enc):
    try:
        bytes(b).decode(enc)
        return True
    except (UnicodeDecodeError, LookupError):
        return False


def cls_is(obj, name):
    return type(obj).__name__ == name


def uninterpreted(*sig):
    def deco(f):
        return f
    return deco


def axiom(f):
    return f


def opaque(*sig):
    def deco(f):
        return f
    return deco


def src_T(x):
    """ghost: the whole byte string of a finite source (E1)"""
    if isinstance(x, (bytes, bytearray)):
        return bytes(x)
    if hasattr(x, 'ghost_T'):
        return x.ghost_T
    return x.getvalue()


def src_R(x):
    if hasattr(x, 'ghost_R'):
        return x.ghost_R
    return x.tell()


def is_none(x):
    return x is None


def use(instance):
    """ghost programs: instantiate a lemma schema; natively the instance is checked to be true"""
    assert instance, "lemma schema instance is false"
    return True


def coerce_like(v, lit):
    for t in (bool, int, float, str):
        if isinstance(v, t):
            return t(lit)
    raise TypeError(type(v))


def coercible(v, lit):
    if v is None:
        return True
    try:
        coerce_like(v, lit)
        return True
    except ValueError:
        return False


def comparable(a, b):
    num = lambda v: isinstance(v, (int, float)) and not isinstance(v, bool)   # noqa: E731
    return (num(a) and num(b)) or (isinstance(a, str) and isinstance(b, str))
