"""Reference semantics (executable, independent of the repository's code) used as oracles by the contracts.

Written from the property statements (XTCE semantics as the properties state them), over the *fields* of the
repository's definition objects, never calling their methods.  Exact arithmetic (fractions) where the property speaks
of mathematical values."""
import operator
from fractions import Fraction

# the six relations in every accepted spelling (C06 statement: "all six relations in every accepted spelling")
REL = {}
for _names, _f in ((("==", "eq"), operator.eq), (("!=", "neq"), operator.ne),
                   (("&lt;", "lt", "<"), operator.lt), (("&gt;", "gt", ">"), operator.gt),
                   (("&lt;=", "leq", "<="), operator.le), (("&gt;=", "geq", ">="), operator.ge)):
    for _n in _names:
        REL[_n] = _f


class Raises:
    """outcome marker: the reference semantics prescribes an exception of this class name"""

    def __init__(self, name):
        self.name = name

    def __eq__(self, other):
        return isinstance(other, Raises) and other.name == self.name

    def __repr__(self):
        return f"Raises({self.name})"


def builtin_of(v):
    """the plain built-in value of a parsed value (IntParameter -> int, ...)"""
    for t in (bool, int, float, str, bytes):
        if isinstance(v, t):
            if t is int and type(v).__name__ == 'BoolParameter':
                return bool(v)
            return t(v)
    return v


def math_rel(op, a, b):
    """the mathematical relation: numbers are compared as exact rationals (int vs float included), strings and
    bytes lexicographically"""
    if isinstance(a, (int, float)) and isinstance(b, (int, float)) and not isinstance(a, bool) and not isinstance(b, bool):
        if a != a or b != b:      # NaN
            return REL[op](a, b)
        if a in (float('inf'), float('-inf')) or b in (float('inf'), float('-inf')):
            return REL[op](a, b)
        return REL[op](Fraction(a), Fraction(b))
    return REL[op](a, b)


def coerce_literal(value, literal):
    """the literal interpreted in the type of the value it is compared to; Raises('ComparisonError') if impossible"""
    v = builtin_of(value)
    try:
        if isinstance(v, bool):
            return Raises('ComparisonError') if str(literal).lower() not in ('true', 'false', '0', '1') else \
                (str(literal).lower() in ('true', '1'))
        if isinstance(v, int):
            return int(literal)
        if isinstance(v, float):
            return float(literal)
        if isinstance(v, str):
            return str(literal)
        if isinstance(v, bytes):
            return Raises('ComparisonError')
    except ValueError:
        return Raises('ComparisonError')
    return Raises('ComparisonError')


def select(packet, name, use_calibrated):
    v = packet[name]
    return v if use_calibrated else v.raw_value


def ref_comparison(c, packet, cur=None):
    """truth of one <Comparison> against the packet (or against the current raw value when the parameter is not yet
    in the packet); Raises(...) where the statement prescribes an error"""
    if c.referenced_parameter in packet:
        val = select(packet, c.referenced_parameter, c.use_calibrated_value)
    elif cur is not None:
        val = cur
    else:
        return Raises('ValueError')
    lit = coerce_literal(val, c.required_value)
    if isinstance(lit, Raises):
        return lit
    return bool(math_rel(c.operator, builtin_of(val), lit))


def ref_condition(c, packet):
    if c.left_param not in packet:
        return Raises('ComparisonError')
    left = select(packet, c.left_param, c.left_use_calibrated_value)
    if c.right_param is not None:
        if c.right_param not in packet:
            return Raises('ComparisonError')
        right = builtin_of(select(packet, c.right_param, c.right_use_calibrated_value))
    elif c.right_value is not None:
        right = coerce_literal(left, c.right_value)
        if isinstance(right, Raises):
            return Raises('ValueError')
    else:
        return Raises('ValueError')
    return bool(math_rel(c.operator, builtin_of(left), right))


def ref_anded(a, packet):
    for c in a.conditions:
        r = ref_condition(c, packet)
        if isinstance(r, Raises) or not r:
            return r
    for o in a.ors:
        r = ref_ored(o, packet)
        if isinstance(r, Raises) or not r:
            return r
    return True


def ref_ored(o, packet):
    for c in o.conditions:
        r = ref_condition(c, packet)
        if isinstance(r, Raises) or r:
            return r
    for a in o.ands:
        r = ref_anded(a, packet)
        if isinstance(r, Raises) or r:
            return r
    return False


def ref_boolexpr(b, packet):
    e = b.expression
    n = type(e).__name__
    if n == 'Condition':
        return ref_condition(e, packet)
    if n == 'Anded':
        return ref_anded(e, packet)
    if n == 'Ored':
        return ref_ored(e, packet)
    return Raises('ValueError')


def ref_criterion(c, packet, cur=None):
    n = type(c).__name__
    if n == 'Comparison':
        return ref_comparison(c, packet, cur)
    if n == 'Condition':
        return ref_condition(c, packet)
    if n == 'BooleanExpression':
        return ref_boolexpr(c, packet)
    raise TypeError(n)


def ref_all(criteria, packet, cur=None):
    """a criteria list is a conjunction, evaluated left to right (the first error or falsity decides)"""
    for c in criteria:
        r = ref_criterion(c, packet, cur)
        if isinstance(r, Raises) or not r:
            return r
    return True


def ref_lookup(dl, packet, cur=None):
    r = ref_all(dl.match_criteria, packet, cur)
    if isinstance(r, Raises):
        return r
    return dl.lookup_value if r else None


def outcome(r):
    """name of the prescribed exception, or None"""
    return r.name if isinstance(r, Raises) else None


# ---- calibration (C08) ----------------------------------------------------------------------------------------------

def ref_poly(coefficients, x):
    """sum of a_i * x**n_i, exactly"""
    return sum(Fraction(c.coefficient) * Fraction(x) ** int(c.exponent) for c in coefficients)


def ref_spline(points, order, extrapolate, q):
    """step (order 0) / linear (order 1) interpolation over the CLOSED range of the points, which are taken in
    increasing raw order; outside: nearest point / end chord when extrapolating, else Raises('CalibrationError')"""
    pts = sorted(((Fraction(p.raw), Fraction(p.calibrated)) for p in points), key=lambda t: t[0])
    xs = [p[0] for p in pts]
    ys = [p[1] for p in pts]
    q = Fraction(q)

    def chord(i, j):
        return ys[i] + (ys[j] - ys[i]) / (xs[j] - xs[i]) * (q - xs[i])
    if xs[0] <= q <= xs[-1]:
        i = max(i for i in range(len(xs)) if xs[i] <= q)
        if order == 0 or i == len(xs) - 1:
            return ys[i]
        return chord(i, i + 1)
    if not extrapolate:
        return Raises('CalibrationError')
    if order == 0:
        return ys[-1] if q > xs[-1] else ys[0]
    return chord(len(xs) - 2, len(xs) - 1) if q > xs[-1] else chord(0, 1)


def close(a, b, rel=1e-9):
    """floating-point results are compared with the exact value up to rounding (rounding itself is not claimed)"""
    if isinstance(a, Raises) or isinstance(b, Raises):
        return a == b
    a, b = Fraction(a), Fraction(b)
    return abs(a - b) <= rel * max(1, abs(a), abs(b))


def _kind(v):
    v = builtin_of(v)
    if isinstance(v, bool):
        return 'bool'
    if isinstance(v, (int, float)):
        return 'num'
    if isinstance(v, str):
        return 'str'
    return 'other'


def comparison_in_scope(c, packet, cur=None):
    """C06 speaks about int / float / str operands; bool- and bytes-valued operands are left unspecified"""
    if c.referenced_parameter in packet:
        return _kind(select(packet, c.referenced_parameter, c.use_calibrated_value)) in ('num', 'str')
    return cur is None or _kind(cur) == 'num'


def condition_in_scope(c, packet):
    if c.left_param not in packet or (c.right_param is not None and c.right_param not in packet):
        return True
    lk = _kind(select(packet, c.left_param, c.left_use_calibrated_value))
    if c.right_param is not None:
        rk = _kind(select(packet, c.right_param, c.right_use_calibrated_value))
        return lk == rk and lk in ('num', 'str')
    return lk in ('num', 'str')


# ---- bit-level reference decoders (C04 / C07 / C08), written from the property statements ---------------------------
import struct as _struct


def ref_bits(buf, p, n):
    """unsigned big-endian value of bits p..p+n-1 of buf (bit 0 = MSB of byte 0), via the bit string"""
    if n == 0:
        return 0
    s = ''.join(f'{b:08b}' for b in bytes(buf))
    return int(s[p:p + n], 2)


def ref_int(u, n, encoding, byte_order):
    if byte_order == 'leastSignificantByteFirst':
        k = (n + 7) // 8
        u = int.from_bytes(u.to_bytes(k, 'big'), 'little')
    if encoding == 'unsigned':
        return u
    return u - (1 << n) if u >= (1 << (n - 1)) else u


def ref_mil1750a(w):
    """MIL-STD-1750A 32-bit float: 24-bit two's-complement mantissa (binary point after the sign bit) times 2 to the
    8-bit two's-complement exponent - exact rational"""
    m = w >> 8
    e = w & 0xFF
    m = m - (1 << 24) if m >= (1 << 23) else m
    e = e - 256 if e >= 128 else e
    return Fraction(m) * (Fraction(2) ** (e - 23))


def ref_float_raw(enc, field_bytes):
    """value of a float field from its bytes (big-endian as extracted) in the declared byte order"""
    b = bytes(field_bytes)
    if enc.encoding == 'MILSTD_1750A':
        w = int.from_bytes(b, 'little' if enc.byte_order == 'leastSignificantByteFirst' else 'big')
        return float(ref_mil1750a(w))
    code = {16: 'e', 32: 'f', 64: 'd'}[enc.size_in_bits]
    order = '<' if enc.byte_order == 'leastSignificantByteFirst' else '>'
    return _struct.unpack(order + code, b)[0]


def same_float(a, b):
    """identical IEEE value: NaN matches NaN, signed zeros are distinguished"""
    if a != a or b != b:
        return a != a and b != b
    return a == b and (a != 0 or str(a) == str(b))


def ref_numeric_raw(enc, raw_data, pos):
    """(raw value, new position) or Raises for an integer / float encoding at cursor pos"""
    n = enc.size_in_bits
    if pos + n > 8 * len(raw_data):
        return Raises('ValueError')
    u = ref_bits(raw_data, pos, n)
    if type(enc).__name__ == 'IntegerDataEncoding':
        return ref_int(u, n, enc.encoding, enc.byte_order), pos + n
    return ref_float_raw(enc, u.to_bytes((n + 7) // 8, 'big')), pos + n


def ref_calibrate(cal, x):
    n = type(cal).__name__
    if n == 'PolynomialCalibrator':
        return ref_poly(cal.coefficients, x)
    if n == 'SplineCalibrator':
        return ref_spline(cal.points, cal.order, cal.extrapolate, x)
    raise TypeError(n)


def ref_numeric_parse(enc, packet, pos):
    """C08: (derived value, raw value, class name, new position): first context calibrator whose criteria hold, else
    the default calibrator, else the raw value; calibrated results are floats"""
    r = ref_numeric_raw(enc, packet.raw_data, pos)
    if isinstance(r, Raises):
        return r
    raw, newpos = r
    for cc in (enc.context_calibrators or []):
        ok = ref_all(cc.match_criteria, packet, raw)
        if isinstance(ok, Raises):
            return ok
        if ok:
            v = ref_calibrate(cc.calibrator, raw)
            return v if isinstance(v, Raises) else (v, raw, 'FloatParameter', newpos)
    if enc.default_calibrator:
        v = ref_calibrate(enc.default_calibrator, raw)
        return v if isinstance(v, Raises) else (v, raw, 'FloatParameter', newpos)
    return raw, raw, ('IntParameter' if type(enc).__name__ == 'IntegerDataEncoding' else 'FloatParameter'), newpos


def numeric_matches(result, expected):
    """result of the real parse against the reference tuple"""
    v, raw, cls, _ = expected
    if type(result).__name__ != cls:
        return False
    if isinstance(raw, float):
        if not same_float(float(result.raw_value), raw):
            return False
    elif result.raw_value != raw or type(result.raw_value) is not type(raw):
        return False
    if isinstance(v, float):
        return same_float(float(result), v)
    if cls == 'FloatParameter':
        return close(float(result), v)
    return int(result) == v


# ---- strings and binaries (C07) -----------------------------------------------------------------------------------

def ref_field_len(enc, packet, adj=None):
    """computed field length in bits: fixed | first matching lookup entry | referenced parameter (raw or calibrated as
    declared) through the linear adjustment (slope, intercept) = adj"""
    n = type(enc).__name__
    if n == 'StringDataEncoding':
        fixed, lookups, ref = enc.fixed_length, enc.discrete_lookup_length, enc.dynamic_length_reference
    else:
        fixed, lookups, ref = enc.fixed_size_in_bits, enc.size_discrete_lookup_list, enc.size_reference_parameter
    if fixed is not None and (n != 'StringDataEncoding' or fixed):
        return int(fixed)
    if lookups:
        for dl in lookups:
            r = ref_lookup(dl, packet)
            if isinstance(r, Raises):
                return r
            if r is not None:
                return Fraction(r)
        return Raises('ValueError')
    if ref is not None:
        if ref not in packet:
            return Raises('KeyError')
        x = select(packet, ref, enc.use_calibrated_value)
        x = Fraction(builtin_of(x))
        if adj is not None:
            x = adj[0] * x + adj[1]
        return x
    return Raises('ValueError')


def ref_binary_parse(enc, packet, pos, adj=None):
    """(value bytes, new position): exactly the bits of the field, left-padded to whole bytes"""
    L = ref_field_len(enc, packet, adj)
    if isinstance(L, Raises):
        return L
    if L != int(L):
        return Raises('ValueError')
    L = int(L)
    if L < 0 or pos + L > 8 * len(packet.raw_data):
        return Raises('ValueError')
    return ref_bits(packet.raw_data, pos, L).to_bytes((L + 7) // 8, 'big'), pos + L


def ref_string_parse(enc, packet, pos, adj=None):
    """(text, raw buffer bytes, new position): raw = the field's bits right-padded to whole bytes; text = whole buffer |
    part before the first termination character | part whose bit length the leading size tag gives"""
    L = ref_field_len(enc, packet, adj)
    if isinstance(L, Raises):
        return L
    if L != int(L):
        return Raises('ValueError')
    L = int(L)
    if L < 0:
        return Raises('ValueError')
    if pos + L > 8 * len(packet.raw_data):
        # a string buffer that extends past the end of the packet: the statements leave the field itself unspecified
        # (the library reads such a buffer through the unchecked integer read); what they pin down is that the PACKET is
        # then never delivered as clean (C14) - checked at stream level
        return Raises('PastEnd')
    pad = (8 - L % 8) % 8
    raw = (ref_bits(packet.raw_data, pos, L) << pad).to_bytes((L + pad) // 8, 'big')
    if enc.leading_length_size:
        s = enc.leading_length_size
        if s > 8 * len(raw):
            return Raises('ValueError')
        lam = ref_bits(raw, 0, s)
        if lam % 8 != 0 or s + lam > 8 * len(raw):
            return Raises('ValueError')
        text_bytes = ref_bits(raw, s, lam).to_bytes(lam // 8, 'big')
    elif enc.termination_character is not None:
        # the first termination CHARACTER: characters of the (fixed-width) encoding start at multiples of its width
        tc = enc.termination_character
        hits = [i for i in range(0, len(raw) - len(tc) + 1, len(tc)) if raw[i:i + len(tc)] == tc]
        if not hits:
            return Raises('ValueError')
        text_bytes = raw[:hits[0]]
    else:
        text_bytes = raw
    try:
        text = text_bytes.decode(enc.encoding)
    except UnicodeDecodeError:
        return Raises('UnicodeDecodeError')
    return text, raw, pos + L


# ---- whole-packet reference decoding (C05 / C01 decode half / C11 / C14) ----------------------------------------------

class _RV:
    raw_value = None


class RInt(_RV, int):
    pass


class RFloat(_RV, float):
    pass


class RStr(_RV, str):
    pass


class RBytes(_RV, bytes):
    pass


class BoolParameter(_RV, int):      # same class NAME as the library's, so builtin_of() treats it as a boolean
    pass


def _rv(cls, value, raw):
    o = cls(value)
    o.raw_value = raw
    return o


CLASS_OF = {'RInt': 'IntParameter', 'RFloat': 'FloatParameter', 'RStr': 'StrParameter', 'RBytes': 'BinaryParameter',
            'BoolParameter': 'BoolParameter'}


class RefPacket(dict):
    def __init__(self, raw):
        super().__init__()
        self.raw_data = bytes(raw)
        self.pos = 0


class Unrecognized(Exception):
    def __init__(self, partial):
        self.partial = partial


class DecodeError(Exception):
    def __init__(self, name):
        self.name = name


def _must(r):
    if isinstance(r, Raises):
        raise DecodeError(r.name)
    return r


def ref_param_value(ptype, packet, adj_of=None):
    """decode one parameter at packet.pos per its type and encoding; returns the reference value object"""
    enc = ptype.encoding
    en = type(enc).__name__
    tn = type(ptype).__name__
    adj = adj_of(enc) if adj_of else None
    if en in ('IntegerDataEncoding', 'FloatDataEncoding'):
        if tn in ('EnumeratedParameterType', 'BooleanParameterType'):
            raw, newpos = _must(ref_numeric_raw(enc, packet.raw_data, packet.pos))
            packet.pos = newpos
        else:
            v, raw, cls, newpos = _must(ref_numeric_parse(enc, packet, packet.pos))
            packet.pos = newpos
            return _rv(RInt if cls == 'IntParameter' else RFloat, int(v) if cls == 'IntParameter' else float(v), raw)
    elif en == 'StringDataEncoding':
        text, rawb, newpos = _must(ref_string_parse(enc, packet, packet.pos, adj))
        packet.pos = newpos
        if tn not in ('EnumeratedParameterType', 'BooleanParameterType'):
            return _rv(RStr, text, rawb)
        raw = rawb
    elif en == 'BinaryDataEncoding':
        val, newpos = _must(ref_binary_parse(enc, packet, packet.pos, adj))
        packet.pos = newpos
        if tn not in ('EnumeratedParameterType', 'BooleanParameterType'):
            return _rv(RBytes, val, val)
        raw = val
    else:
        raise DecodeError('TypeError')
    if tn == 'EnumeratedParameterType':
        if raw not in ptype.enumeration:
            raise DecodeError('ValueError')
        return _rv(RStr, ptype.enumeration[raw], raw)
    return _rv(BoolParameter, bool(raw), raw)


def ref_container(defn, container, packet, adj_of=None):
    for entry in container.entry_list:
        if hasattr(entry, 'entry_list'):
            ref_container(defn, entry, packet, adj_of)
        else:
            packet[entry.name] = ref_param_value(entry.parameter_type, packet, adj_of)


def ref_inheritors(defn, container):
    return [n for n, c in defn.containers.items() if c.base_container_name == container.name]


def ref_parse(defn, raw, root=None, adj_of=None):
    """C05: start at the root, descend to the unique child whose restriction criteria all hold"""
    packet = RefPacket(raw)
    cur = defn.containers[root or defn.root_container_name]
    while True:
        ref_container(defn, cur, packet, adj_of)
        valid = []
        for n in ref_inheritors(defn, cur):
            ok = _must(ref_all(defn.containers[n].restriction_criteria, packet))
            if ok:
                valid.append(n)
        if len(valid) == 1:
            cur = defn.containers[valid[0]]
            continue
        if len(valid) == 0 and not cur.abstract:
            return packet
        raise Unrecognized(packet)


def ref_parse_outcome(defn, raw, root=None, adj_of=None):
    """('ok', packet) | ('unrecognized', partial packet) | ('error', exception class name)"""
    try:
        return 'ok', ref_parse(defn, raw, root, adj_of)
    except Unrecognized as u:
        return 'unrecognized', u.partial
    except DecodeError as d:
        return 'error', d.name


def same_items(real, ref):
    """item by item: names in order, built-in value, raw value and value class"""
    if list(real.keys()) != list(ref.keys()):
        return False
    for k in ref:
        a, b = real[k], ref[k]
        if type(a).__name__ != CLASS_OF[type(b).__name__]:
            return False
        av, bv = builtin_of(a), builtin_of(b)
        if isinstance(bv, float):
            if not (same_float(av, bv) or close(av, bv)):
                return False
        elif av != bv or type(av) is not type(bv):
            return False
        ar, br = a.raw_value, b.raw_value
        if isinstance(br, float):
            if not same_float(float(ar), br):
                return False
        elif ar != br or type(builtin_of(ar)) is not type(builtin_of(br)):
            return False
    return True


# ---- stream level (C11 / C12 / C14) ------------------------------------------------------------------------------------

def ref_stream(defn, raw_packets, headers_only=False, combine=False, sec=0, yield_errors=False, parse_bad=True,
               root=None):
    """expected outputs of a definition's packet generator for a stream given as its list of raw packets"""
    state = {}
    out = []
    warnings_expected = {'segment': 0, 'length': 0, 'parse_bad': parse_bad}
    for raw in raw_packets:
        apid = ref_bits(raw, 5, 11)
        flags = ref_bits(raw, 16, 2)
        if headers_only:
            out.append(('raw', raw))
            continue
        if not combine or flags == 3:
            data = raw
        elif flags == 1:
            state[apid] = [raw]
            continue
        elif not state.get(apid):
            warnings_expected['segment'] += 1
            continue
        elif flags == 0:
            state[apid].append(raw)
            continue
        else:
            group = state.pop(apid) + [raw]          # the group is closed whatever the outcome
            counts = [ref_bits(p, 18, 14) for p in group]
            if not all((b - a) % 16384 == 1 for a, b in zip(counts, counts[1:])):
                warnings_expected['segment'] += 1
                continue
            data = group[0] + b''.join(p[6 + sec:] for p in group[1:])
        kind, val = ref_parse_outcome(defn, data, root)
        if kind == 'unrecognized':
            if yield_errors:
                out.append(('unrecognized', val))
            continue
        if kind == 'error':
            # the reference decoder rejects this packet (a field past the end, an unlisted enumeration value,
            # undecodable text ...): the library may raise, or carry on and flag / withhold it - see stream_matches
            out.append(('maybe_bad', data))
            continue
        clean = (val.pos == 8 * len(data))
        if not clean:
            warnings_expected['length'] += 1
            if not parse_bad:
                continue
        out.append(('packet', val, clean, data))
    return out, warnings_expected


def stream_matches(real, expected):
    """real = {'items': [...], 'warnings': [messages], 'raised': class name or None}.
    Where the reference decoder prescribes a decode error for a packet (a field extends past the end of the packet,
    an unlisted enumeration value, undecodable text ...) the library may raise any exception (the stream ends there) or
    carry on; if it carries on, the item for THAT packet - when there is one - must not be delivered as clean (C14), and
    every other packet of the stream is still compared exactly, in order."""
    exp, warns = expected
    items = real['items']
    i = 0
    bad_seen = False
    bad_delivered = 0
    for e in exp:
        if e[0] == 'maybe_bad':
            bad_seen = True
            if i < len(items) and type(items[i]).__name__ == 'CCSDSPacket' and bytes(items[i].raw_data) == e[1]:
                it = items[i]
                if it.raw_data.pos == 8 * len(it.raw_data) or not warns.get('parse_bad', True):
                    return False        # an over-read / undecodable packet delivered as if it were clean, or delivered
                    #                     although bad packets were to be withheld
                bad_delivered += 1
                i += 1
            elif i < len(items) and type(items[i]).__name__ == 'UnrecognizedPacketTypeError' and \
                    getattr(items[i], 'partial_data', None) is not None and \
                    bytes(items[i].partial_data.raw_data) == e[1]:
                # carried on past the field the reference rejects and ended at a dead end: reported as unrecognized
                i += 1
            continue
        if i >= len(items):
            # nothing more was yielded: only acceptable when the library raised at a packet the reference rejects
            return bool(real['raised'] is not None and bad_seen)
        it = items[i]
        i += 1
        if e[0] == 'raw':
            if bytes(it) != e[1] or type(it).__name__ != 'RawPacketData':
                return False
        elif e[0] == 'unrecognized':
            if type(it).__name__ != 'UnrecognizedPacketTypeError' or not same_items(it.partial_data, e[1]):
                return False
        else:
            if type(it).__name__ != 'CCSDSPacket' or not same_items(it, e[1]) or bytes(it.raw_data) != e[3]:
                return False
            if (it.raw_data.pos == 8 * len(it.raw_data)) != e[2]:
                return False
    if i != len(items):
        return False
    if real['raised'] is not None and not bad_seen:
        return False
    if bad_delivered and real['raised'] is None and \
            sum(1 for w in real['warnings'] if 'did not match' in w) < warns['length'] + bad_delivered:
        return False                    # ... or delivered without the length-mismatch warning
    if not bad_seen:
        nlen = sum(1 for w in real['warnings'] if 'did not match' in w)
        nseg = sum(1 for w in real['warnings'] if 'ontinuation' in w)
        if nlen != warns['length'] or nseg != warns['segment']:
            return False
    return True


# ---- structural view of a definition (independent comparison; unlike the library's ==, callables are probed) ---------

def canon(obj, depth=0):
    """canonical, comparable structure of a definition object graph"""
    if depth > 40:
        return '<deep>'
    n = type(obj).__name__
    if obj is None or isinstance(obj, (bool, int, float, str, bytes)):
        return obj
    if callable(obj) and not hasattr(obj, '__dict__') or n == 'function':
        try:
            return ('linear', obj(0), obj(1) - obj(0), obj(7) - obj(0))
        except Exception as e:      # noqa
            return ('callable', type(e).__name__)
    if isinstance(obj, (list, tuple)):
        if hasattr(obj, '_fields'):
            return (n,) + tuple((f, canon(getattr(obj, f), depth + 1)) for f in obj._fields)
        return [canon(x, depth + 1) for x in obj]
    if isinstance(obj, dict):
        return [(canon(k), canon(v, depth + 1)) for k, v in obj.items()]
    if n == 'SequenceContainer':
        return ('SequenceContainer', obj.name, [(type(e).__name__, e.name) for e in obj.entry_list],
                obj.base_container_name, canon(obj.restriction_criteria, depth + 1), bool(obj.abstract),
                obj.short_description, obj.long_description, sorted(obj.inheritors),
                _extra_state(obj, ('name', 'entry_list', 'base_container_name', 'restriction_criteria', 'abstract',
                                   'short_description', 'long_description', 'inheritors'), depth))
    if n == 'Parameter':
        return ('Parameter', obj.name, obj.parameter_type.name, obj.short_description, obj.long_description,
                _extra_state(obj, ('name', 'parameter_type', 'short_description', 'long_description'), depth))
    if hasattr(obj, '__dict__'):
        items = []
        for k in sorted(vars(obj)):
            if k == 'parse_func':
                continue
            items.append((k, canon(getattr(obj, k), depth + 1)))
        return (n, items)
    return repr(obj)


def _extra_state(obj, known, depth):
    """instance attributes beyond the declared ones (state cached on a definition object shows up here)"""
    out = []
    for k in sorted(getattr(obj, '__dict__', {})):
        if k in known:
            continue
        v = getattr(obj, k)
        out.append((k, getattr(v, 'name', None) if hasattr(v, 'entry_list') or hasattr(v, 'parameter_type')
                    else canon(v, depth + 1)))
    return out


def canon_definition(d):
    return {'parameter_types': [(k, canon(v)) for k, v in d.parameter_types.items()],
            'parameters': [(k, canon(v)) for k, v in d.parameters.items()],
            'containers': [(k, canon(v)) for k, v in d.containers.items()],
            'root': d.root_container_name}


def same_definition(a, b, ordered=False):
    ca, cb = canon_definition(a), canon_definition(b)
    if not ordered:
        for k in ('parameter_types', 'parameters', 'containers'):
            ca[k] = sorted(ca[k], key=lambda t: t[0])
            cb[k] = sorted(cb[k], key=lambda t: t[0])
    return ca == cb


def consistent_graph(d):
    """C17: every name denotes exactly one object and every link refers to that object; inheritor lists are exactly
    the containers naming the container as their base, each once"""
    for name, c in d.containers.items():
        if c.name != name:
            return False
        for e in c.entry_list:
            if hasattr(e, 'entry_list'):
                if d.containers.get(e.name) is not e:
                    return False
            else:
                if d.parameters.get(e.name) is not e:
                    return False
                if d.parameter_types.get(e.parameter_type.name) is not e.parameter_type:
                    return False
        if c.base_container_name is not None and c.base_container_name not in d.containers:
            return False
        expected = [n for n, o in d.containers.items() if o.base_container_name == name]
        if sorted(c.inheritors) != sorted(expected) or len(set(c.inheritors)) != len(c.inheritors):
            return False
    for name, p in d.parameters.items():
        if p.name != name or d.parameter_types.get(p.parameter_type.name) is not p.parameter_type:
            return False
    return True
