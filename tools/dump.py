import sys
sys.path.insert(0,'/verif')
import z3
from pyvc.world import World
from pyvc.contract import Registry
from pyvc.verify import verify_function
from pyvc.prove import obligation_formulas, to_smt2
target, obname, idx, out = sys.argv[1], sys.argv[2], int(sys.argv[3]), sys.argv[4]
w=World(); reg=Registry(w)
r=verify_function(w,reg,reg.contracts[target],sys.argv[5] if len(sys.argv)>5 else '')
obs=[o for o in r.obligations if o.name.endswith(obname)]
open(out,'w').write(to_smt2(obligation_formulas(obs[idx])))
print(len(obs), 'written')
