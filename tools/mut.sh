#!/bin/bash
# usage: tools/mut.sh <seed name e.g. C04_m1> <property> [extra check args]: run a check against a scratch copy with the seeded change.
# The evidence file of the property (written by the check) is put back afterwards: committed evidence describes the unchanged tree.
seed=$1; prop=$2; shift; shift
scr=$(mktemp -d /tmp/scrXXXX)
cp -r /repo/space_packet_parser $scr/
(cd $scr && patch -s -p1 < /verif/seeded/$seed/patch.diff) || { echo "patch failed"; rm -rf $scr; exit 2; }
[ -f /verif/evidence/$prop.json ] && cp /verif/evidence/$prop.json $scr/evidence.keep
cd /verif && SPP_REPO=$scr python3-vt checks/check.py $prop "$@"; rc=$?
[ -f $scr/evidence.keep ] && cp $scr/evidence.keep /verif/evidence/$prop.json
rm -rf $scr
echo "rc=$rc"
