#!/usr/bin/env python3
"""Run the native (bounded) side of every contract under several seeds on the current tree and list every clause that
fails: on the unchanged tree any failure that is not a known finding is a false alarm of the machinery (or a defect).
usage: python3-vt tools/native_sweep.py 1 2 3 [--tier quick]"""
import sys, os, json, subprocess, concurrent.futures as cf
VERIF = os.path.dirname(os.path.dirname(os.path.abspath(__file__)))
sys.path.insert(0, VERIF)
from pyvc.world import World
from pyvc.contract import Registry
from checks.check import contracts_module_of, NATIVE_PY

seeds = [int(a) for a in sys.argv[1:] if a.isdigit()] or [1, 2, 3]
tier = 'thorough' if '--thorough' in sys.argv else 'quick'
reg = Registry(World())
jobs = []
seen = set()
for con in reg.contracts.values():
    if con.native is None:
        continue
    for vn in con.variant_names():
        for pid in con.props[:1]:          # clause tags only narrow; the first property sees every untagged clause
            for s in seeds:
                jobs.append((contracts_module_of(reg, con.target), con.target, vn, s, pid))

def run(j):
    mod, tgt, vn, s, pid = j
    env = dict(os.environ, PYTHONPATH=VERIF)
    cmd = [NATIVE_PY, os.path.join(VERIF, 'pyvc', 'native.py'), 'search', mod, tgt, '--variant', vn, '--seed', str(s),
           '--tier', tier, '--budget', '60000']
    try:
        p = subprocess.run(cmd, capture_output=True, text=True, timeout=900, env=env)
        out = json.loads(p.stdout.strip().splitlines()[-1])
    except Exception as e:
        return j, dict(error=str(e)[:300])
    return j, out

bad = 0
with cf.ThreadPoolExecutor(max_workers=14) as ex:
    for j, out in ex.map(run, jobs):
        fails = out.get('distinct_failing_clauses') or []
        if out.get('error') or out.get('harness_errors') or fails:
            bad += 1
            print(j[1], f"[{j[2]}]", 'seed', j[3], 'FAILING', fails, (out.get('error') or out.get('harness_errors') or '')[:300] if not fails else '')
print(f"{len(jobs)} native runs, {bad} with failing clauses or errors")
