import sys, json, random
sys.path.insert(0,'/verif'); sys.path.insert(0,'/repo')
import contracts.definitions as D
import specs.refsem as R
from pyvc import native
con=[c for c in D.CONTRACTS if c.target.endswith('packet_generator')][0]
rng=random.Random(int(sys.argv[1]) if len(sys.argv)>1 else 1)
n=0
for rec in con.native['gen'](rng,'quick',''):
    case=con.native['build'](rec); args=case['make']()
    real=D._drain(native.resolve_target(con.target), args)
    o=args['opts']
    exp=R.ref_stream(args['self'], args['raws'], headers_only=o.get('ccsds_headers_only',False), combine=o.get('combine_segmented_packets',False), sec=o.get('secondary_header_bytes',0), yield_errors=o.get('yield_unrecognized_packet_errors',False), parse_bad=o.get('parse_bad_pkts',True))
    if not R.stream_matches(real, exp):
        n+=1
        print('--- opts',o, 'npk',len(args['raws']))
        print(' real: n=',len(real['items']),'raised',real['raised'],'warn',[w[:40] for w in real['warnings']])
        print(' exp :', [(e[0], (e[2] if e[0]=='packet' else e[1] if e[0]=='raise' else '')) for e in exp[0]], exp[1])
        print(' flags/apid/cnt:', [(R.ref_bits(p,16,2), R.ref_bits(p,5,11), R.ref_bits(p,18,14), len(p)) for p in args['raws']])
        if n>=int(sys.argv[2]) if len(sys.argv)>2 else 6: break
