import sys, time
sys.path.insert(0, '/verif')
from collections import Counter
from pyvc.world import World
from pyvc.contract import Registry
from pyvc.verify import verify_function

w = World()
reg = Registry(w)
con = reg.contracts[sys.argv[1]]
for vn in (sys.argv[2:] or con.variant_names()):
    t = time.time()
    r = verify_function(w, reg, con, vn)
    print(vn, r.status, r.message, 'paths', r.paths, 'obs', len(r.obligations), round(time.time() - t, 1), 's', r.outcomes)
    c = Counter(o.name for o in r.obligations)
    for k, v in sorted(c.items()):
        print('   ', v, k)
