import sys, time
sys.path.insert(0,'/verif')
import z3
from pyvc.world import World
from pyvc.contract import Registry
from pyvc.verify import verify_function
from pyvc import theory as T, types as TY
target, obname, idx = sys.argv[1], sys.argv[2], int(sys.argv[3])
w=World(); reg=Registry(w)
con=reg.contracts[target]
r=verify_function(w,reg,con,sys.argv[4] if len(sys.argv)>4 else '')
obs=[o for o in r.obligations if o.name.endswith(obname)]
ob=obs[idx]
print(ob.name, 'pc:'); 
for p in ob.pc: print('   ', z3.simplify(p))
print(' goal:', z3.simplify(ob.goal))
base=list(ob.pc)+list(ob.hints)+[z3.Not(ob.goal)]
def run(axs, label):
    fs=[f for _,f in axs]+[f for _,f in TY.all_list_axioms()]
    un=T.ground_unfold(base+fs)
    s=z3.Solver(); s.set('timeout',10000); s.set('smt.mbqi',False); s.set('auto_config',False); s.add(fs+un+base)
    t=time.time(); res=s.check(); print(f"{label:30s} {res} {time.time()-t:.2f}s")
    return res
REL=T.relevant_axioms(list(T.AXIOMS), base)
print([n for n,_ in REL])
run(REL,'all')
for name,_ in REL:
    run([(n,f) for n,f in REL if n!=name], 'without '+name)
