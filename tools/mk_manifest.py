#!/usr/bin/env python3
"""Regenerate /verif/MANIFEST.json from the table below (keeps it schema-valid; run after adding a property)."""
import json
import os

VERIF = os.path.dirname(os.path.dirname(os.path.abspath(__file__)))

COMMON_NOTE = ("Assumes S1-S10 of DESIGN.md section 2 (Python semantics of the encoding: mathematical ints, bytes as "
               "finite sequences, floats as reals, no aliasing between distinct parameters), the theory axioms of "
               "pyvc/theory.py (Lean statements in lean/PyVC.lean; conformance-tested against CPython on every run), "
               "and solver soundness (z3 5.1 / cvc5 1.0 / z3 4.8). ")

BOUNDED_TECH = ("contracts on the real functions checked by the bounded native stand-in (runtime evaluation of the contract "
                "clauses against an independent reference semantics on enumerated + seeded inputs); supporting leaf "
                "contracts discharged deductively where listed in the evidence")
P = 'proof'
X = 'exploration'

CLAIMED = {
    'C01': dict(cat=X,
        text="Composition of the two halves. Decode half: the framer (C02/C10), the bit cursor (C03), integer decoding "
             "(C04) and the header accessors (C13) are PROVED unbounded; container walk, criteria, calibration, string/"
             "binary fields and the stream loop are checked against the reference semantics specs/refsem.py "
             "(ref_parse / ref_stream: item by item value, raw value and class) by the bounded stand-in. Load half: "
             "documents emitted by an independent XTCE writer in every namespace convention are loaded and compared "
             "with the same definition assembled from objects (bounded).",
        design_ref="DESIGN.md 7 (C01), 16", note="E1-E7; bounded parts listed under coverage.bounded of the evidence",
        technique=BOUNDED_TECH),
    'C02': dict(cat=P,
        text="Unbounded proof for all three source kinds: ccsds_generator is verified with loop invariants (buffer window "
             "read_buffer == T[R-len:R], position == frame boundary fb(j), yielded == the j consecutive records) against "
             "the ghost source model E1 in which every read()/recv() returns SOME non-empty prefix of what remains "
             "(universally quantified fragmentation), any read size, any prefix k, with and without the progress display, including the > 20 MB buffer trim; "
             "exactness on well-formed streams is a lemma (ghost client program) over the framer's contract.",
        design_ref="DESIGN.md 7 (C02)", note="E1 (assumed contract on BufferedIOBase.read/seek and socket.recv)",
        technique="contract-based deductive verification with loop invariants; lemma over contracts"),
    'C03': dict(cat=P,
        text="Unbounded proof: _extract_bits, read_as_int and read_as_bytes are symbolically executed from the real "
             "source on every run against the oracle bits(B,p,n) (unsigned big-endian value of bits p..p+n-1) for "
             "symbolic buffer, cursor and width; every path (aligned fast path, shift-and-mask path, end-of-packet "
             "guard, to_bytes overflow) yields named obligations discharged by z3/cvc5; cursor and frame clauses "
             "included. Native replay of the same contracts gives the reachability witnesses.",
        design_ref="DESIGN.md 7 (C03)", note="no external assumptions beyond S1/S2",
        technique="contract-based deductive verification: AST->VC symbolic execution of the real functions, z3/cvc5"),
    'C04': dict(cat=P,
        text="Integer half proved unbounded end to end: _twos_complement, IntegerDataEncoding._get_raw_value (int_decode of the field's bits for symbolic width, offset, buffer, byte order), NumericDataEncoding.parse_value (value/class selection, raw_value == the field, cursor == old + width) and the parameter-type delegation on top of it. Float half PROVED up to E2: FloatDataEncoding._get_raw_value returns float_field(self, exactly the field's bits) at any alignment with cursor == old + width; the MIL-STD-1750A closure is proved to compute the 24-bit two's-complement mantissa times 2**(8-bit two's-complement exponent - 23) in either byte order, the IEEE closure to call struct.unpack (E2, an uninterpreted function of format and bytes) with the stored format on exactly those bytes; parse_value keeps raw_value == that value. The constructor is PROVED as well (lemma ghost.c04_float_ctor: the prover executes the real FloatDataEncoding.__init__ and NumericDataEncoding.__init__ on a fresh object for symbolic encoding / size / byte order / bytes): the MIL closure is stored exactly for MIL-STD-1750A at 32 bits, the IEEE closure otherwise, with struct format '<' or '>' for the declared byte order followed by 'e' / 'f' / 'd' for 16 / 32 / 64 bits, size and byte order kept, and it rejects only non-XTCE spellings and wrong sizes. What remains assumed: the call through the stored function VALUE in _get_raw_value uses a contract on the field (objects are built by that constructor and the two fields are not reassigned afterwards - a frame condition checked only by the bounded native run over every encoding / size / byte order with signed zeros, infinities, NaNs and subnormals against an exact-rational reference decoder); the two lemma schemas that define float_field are tested against that decoder on every run.",
        design_ref='DESIGN.md STATUS, 7 (C04)', note='E2 (struct.unpack is the IEEE-754 value), E3 (real arithmetic); fields parse_func / _struct_format not reassigned after construction (frame, bounded)',
        technique='contract-based deductive verification: AST->VC symbolic execution of the real functions against sidecar contracts, z3/cvc5; bounded stand-in for the float bit-pattern decoding'),
    'C05': dict(cat=P,
        text='PROVED: parse_ccsds_packet descends only to the unique child whose restriction criteria all hold (oracle nvalid == 1; the child satisfies rc_match and is one of the inheritors), returns normally only at a concrete container with no matching child, and raises UnrecognizedPacketTypeError exactly at an abstract dead end or an ambiguity, carrying the packet decoded so far (payload obligation); the result is the argument packet. PROVED: the entry-list walk SequenceContainer.parse decodes exactly the parameters of the entry list, in entry-list order, each once, nested container references expanded in place (ghost event log == old log ++ flat(self), recursive spec flat_upto, whatever the packet holds: no early exit, no skipping), and Parameter.parse (every parameter type class except float-/string-encoded enumerations) stores the decoded value under its own name, a new name at the END of the packet, other items untouched. The criteria evaluators underneath are proved (C06). Header/user-data views and inheritor back-population by the XML reader are checked against ref_parse on random container trees (bounded), incl. zero-width trailing entries and packets cut to the consumed length.',
        design_ref='DESIGN.md STATUS, 7 (C05)', note='definition validity predicate defn_ok assumed of the input (shape invariants the decoders require); from_xtce bounded (E6)',
        technique='contract-based deductive verification: AST->VC symbolic execution of the real functions against sidecar contracts, z3/cvc5; ghost event log and recursive spec functions; bounded stand-in for the XML reader'),
    'C06': dict(cat=P,
        text='All four evaluators are PROVED for every operator spelling, both selectors, int/float/str operands incl. falsy values and int-versus-float (exact over the reals), literals coerced in the type of the selected value: Comparison.evaluate, Condition.evaluate, BooleanExpression.evaluate with its nested _and/_or (structural induction through the contracts of the nested functions: arbitrary depth), DiscreteLookup.evaluate (first entry whose criteria all hold). Denotations are opaque spec functions (sem_cmp, sem_cond, sem_and/sem_or, sem_bexp) revealed only in the proof of the function that implements them; clients (context calibrators, container descent, computed lengths) use the denotations. The same contracts are run natively against an exact-rational reference (near-equal floats, conditions differing only in a selector).',
        design_ref='DESIGN.md STATUS, 7 (C06)', note='bool- and bytes-valued operands and mixed text/number operands are outside the statement (contract requires)',
        technique='contract-based deductive verification: AST->VC symbolic execution of the real functions against sidecar contracts, z3/cvc5; opaque spec functions with reveal'),
    'C07': dict(cat=P,
        text="PROVED: the linear adjuster closure (ints; floats over the reals with ValueError iff slope*x+intercept is not whole), String/BinaryDataEncoding._calculate_size (fixed | FIRST matching lookup incl. value 0 | referenced raw-or-calibrated value through the adjustment), _get_raw_buffer (whole buffer right-padded), BinaryDataEncoding.parse_value (exactly the field's bits, left-padded; cursor == old + computed length, negative lengths raise) and StringDataEncoding.parse_value (raw value = buffer; text = decode of the whole buffer | of the part before the FIRST termination character at a character boundary | of the part whose bit length the leading size tag gives), and the parameter-type delegation. bytes.decode is an uninterpreted function (E4). Float-valued length references are covered (through the adjustment over the reals, which must give a whole number, else truncated); text-valued references are left unspecified (outside the statement). The codecs are CPython's (E4); the same contracts run natively against reference decoders.",
        design_ref='DESIGN.md STATUS, 7 (C07)', note="E4 (codecs are CPython's)",
        technique='contract-based deductive verification: AST->VC symbolic execution of the real functions against sidecar contracts, z3/cvc5; bounded stand-in for float-valued length references'),
    'C08': dict(cat=P,
        text='PROVED over the reals: PolynomialCalibrator.calibrate (sum a_i*x^n_i), SplineCalibrator order 0 and 1 (step / chord interpolation over the CLOSED range incl. the last knot, extrapolation only when enabled else CalibrationError), ContextCalibrator.calibrate, NumericDataEncoding.parse_value (FIRST context calibrator whose criteria hold, else default, else the raw value; calibrated results are FloatParameter; raw_value is the uncalibrated field), EnumeratedParameterType.parse_value over integer encodings (label of the RAW value, ValueError path for unlisted values, raw_value kept) and BooleanParameterType.parse_value for all four encodings (truthiness of the RAW value). Time parameter types decode through the same delegation. Float rounding is not claimed (S3); float- and string-encoded enumerations are checked by the bounded stand-in through whole-packet decoding against exact rationals.',
        design_ref='DESIGN.md STATUS, 7 (C08)', note='rounding not claimed: native comparison up to 1e-9 relative (S3)',
        technique='contract-based deductive verification: AST->VC symbolic execution of the real functions against sidecar contracts, z3/cvc5; bounded stand-in for float/string-encoded enumerations'),
    'C09': dict(cat=X,
        text="Ghost program c09_roundtrip on random definitions built from objects and loaded from XML: L(W(D)) is "
             "compared with D by an independent structural comparison (adjustment callables probed) and by identical "
             "reference decoding of packets reaching every container.",
        design_ref="DESIGN.md 7 (C09), 16", note="E6: lxml is C code; no contract within the prover's reach, bounded only",
        technique="bounded stand-in only (ghost client program run natively); deductive proof not reached - lxml"),
    'C10': dict(cat=P,
        text="Total-correctness proof of the same function for ARBITRARY finite sources: decreases clauses on all three "
             "loops (termination), every yielded item is complete (its own length field) and a consecutive slice of the "
             "input, the unconsumed remainder is shorter than one complete record, no exception escapes - for bytes, "
             "file and socket sources under E1, empty input and every cut point included (symbolic), with and without the progress "
             "display (_print_progress is under contract: no exception for any byte / packet counts, known, unknown or zero total).",
        design_ref="DESIGN.md 7 (C10)", note="E1, E12 (time.time_ns / timedelta / print do not raise); decode-time exceptions of a definition's decoders belong to C07/C08/C14",
        technique="contract-based deductive verification incl. termination (loop variants)"),
    'C11': dict(cat=P,
        text="packet_generator is PROVED against the proved framer contract (bytes, file and socket sources): every yielded item is the raw packet (headers only), the packet object returned by parse_ccsds_packet for THIS raw packet alone (bytes(packet.raw_data) == the raw packet when unsegmented or combining is off), or - only when requested - the error object of an unrecognized packet whose partial_data is that packet; at most one item per raw packet; the only state carried between iterations is the segment-group dict, which is unchanged whenever combining is off (step clause `alone`). parse_ccsds_packet's frame obligations show it writes nothing but the packet's items and cursor. Interleaving of several generators and `canon_definition` unchanged are checked by the bounded stand-in (ref_stream), incl. one-APID streams that alternate recognizable / unrecognizable / ambiguous packets.",
        design_ref='DESIGN.md STATUS, 7 (C11)', note="generators only, no threads; definition objects are immutable records in the prover's model (S5), the canonical-dump comparison is native",
        technique='contract-based deductive verification: AST->VC symbolic execution of the real functions against sidecar contracts, z3/cvc5; bounded stand-in for interleaved generators'),
    'C12': dict(cat=P,
        text="The reassembly step function of the statement is PROVED as per-iteration step clauses of packet_generator over a symbolic dict of open groups (arbitrary APIDs and histories): FIRST opens/supersedes the group of its APID and yields nothing; CONTINUATION joins an open group, is dropped otherwise; LAST removes the group whatever the outcome (so no raw packet contributes twice), is dropped when no group is open or the counts are not consecutive modulo 16384 (spec in_sequence over bits 18..31); what is parsed is exactly the whole first packet followed by every later packet without its 6 + secondary_header_bytes leading bytes (recursive spec `tails`, loop invariant `joined`); other APIDs' groups are untouched (dict equality). The same contract is run natively on ALL histories up to length 4/5 over 2 APIDs, roll-over gaps and empty later segments.",
        design_ref='DESIGN.md STATUS, 7 (C12)', note='warning texts are not part of the contract',
        technique='contract-based deductive verification: AST->VC symbolic execution of the real functions against sidecar contracts, z3/cvc5; loop invariants, recursive spec functions'),
    'C13': dict(cat=P,
        text="Unbounded proof: create_ccsds_packet is proved to raise ValueError exactly outside the field ranges and "
             "otherwise to produce the CCSDS header polynomial v*2^45+t*2^44+s*2^43+a*2^32+f*2^30+c*2^16+(len-1) "
             "followed by the data; each accessor is proved against bits(self,p,n) at the CCSDS position; round trip "
             "and re-framing are ghost client programs verified against the contracts only; the framer is in the tree.",
        design_ref="DESIGN.md 7 (C13)", note="E11 (cached_property returns the first computed value; the buffer is immutable)",
        technique="contract-based deductive verification + lemmas as ghost client programs over contracts"),
    'C14': dict(cat=P,
        text='PROVED: both cursor reads return normally only for nbits >= 0 and move the cursor by exactly nbits; integer/float fields advance by their width, string/binary fields by the computed length (negative or over-long lengths raise); packet_generator yields a parsed packet with no length warning issued in that iteration exactly when pos == 8*len(raw_data), and withholds it otherwise unless parse_bad_pkts (yield clause clean_iff_consumed). The entry-list walk is proved to decode each entry exactly once in order with a monotone cursor, so the cursor after a parse is the start plus the widths of the decoded fields; the whole-packet sum is additionally checked by the bounded stand-in with packets cut to the consumed length and 1..7 left-over bits.',
        design_ref='DESIGN.md STATUS, 7 (C14)', note='entry-list walk bounded',
        technique='contract-based deductive verification: AST->VC symbolic execution of the real functions against sidecar contracts, z3/cvc5; bounded stand-in for the walk'),
    'C15': dict(cat=X,
        text="Same ghost program as C09: W(D) == W(D) with a fixed date, canonical dump of D unchanged by writing, every "
             "element in the definition's namespace, and W(L(W(L(W(D))))) == W(L(W(D))) byte for byte.",
        design_ref="DESIGN.md 7 (C15), 16", note="E6: bounded only", technique="bounded stand-in only (ghost client program run natively); deductive proof not reached - lxml"),
    'C16': dict(cat=X,
        text="from_xtce on documents produced by an independent emitter in five namespace spellings, with comments between "
             "all sibling elements, after histories of 0..3 prior loads (other conventions, malformed XML, documents "
             "that fail to load): the result equals the definition assembled from objects.",
        design_ref="DESIGN.md 7 (C16), 16", note="E6: bounded only", technique="bounded stand-in only; deductive proof not reached - lxml"),
    'C17': dict(cat=X,
        text="from_xtce result is a consistent object graph (identity of every entry / nested / base link, inheritor "
             "lists == containers naming the base, each once) incl. forward references and repeated nested references; "
             "nine single-point corruptions (duplicates, undefined references, base and nesting cycles) are rejected at "
             "load.",
        design_ref="DESIGN.md 7 (C17), 16", note="E6: bounded only; cycle rejection is by RecursionError", technique="bounded stand-in only; deductive proof not reached - lxml"),
    'C18': dict(cat=X,
        text="create_dataset on flat per-APID layouts over every parameter type/encoding with value extremes (all-zero / "
             "all-one bodies), multi-APID interleavings over 1..2 files, raw and derived mode: one row per packet in "
             "order, every cell equal to the reference value. One known finding (NUL-terminated text/bytes, numpy S/U "
             "dtypes) is reported as KNOWN-FINDING.",
        design_ref="DESIGN.md 7 (C18), 16", note="E8 (numpy/xarray)", technique=BOUNDED_TECH),
    'C19': dict(cat=X,
        text="spp describe-packets / parse run through click's CliRunner with the rows handed to rich captured: files of "
             "n = 0..14, 20, 33 packets and every index 0..n+1; termination on every file follows from the PROVED "
             "termination of the framer (C10) which is in this property's proof tree.",
        design_ref="DESIGN.md 7 (C19), 16", note="E9 (click / rich)", technique=BOUNDED_TECH),
    'C20': dict(cat=P,
        text="_Parameter.__new__ is proved for all five value classes x raw kinds (value is the built-in value, "
             "raw_value = value when none is given, falsy or not). The rest of C20 is CPython object-model behaviour: "
             "structural obligations read from the class ASTs (no protocol overrides) under assumption E10, plus a "
             "BOUNDED enumeration (labelled bounded, not proof) of operators/hash/format/copy/deepcopy/pickle.",
        design_ref="DESIGN.md 7 (C20)", note="E10 (CPython object model: subclasses without overrides inherit built-in behaviour; copyreg reconstruction)",
        technique="contract proof of __new__ + structural obligations under an assumed object-model contract; bounded stand-in for copy/pickle"),
}

NOT_YET = "check not built yet (build in progress; see DESIGN.md section 12 for the order)"


def main():
    props = [json.loads(l)['id'] for l in open(os.path.join(VERIF, 'properties.jsonl'))]
    checks = []
    for pid in props:
        if pid not in CLAIMED:
            continue
        c = CLAIMED[pid]
        checks.append(dict(
            property_id=pid,
            quick_cmd=f"python3-vt checks/check.py {pid} --tier quick",
            thorough_cmd=f"python3-vt checks/check.py {pid} --tier thorough",
            evidence_file=f"/verif/evidence/{pid}.json",
            replay_cmd_template="/venv/bin/python /verif/pyvc/native.py replay {path}",
            engine="pyvc",
            level_claimed=dict(category=c['cat'], text=c['text'], design_ref=c['design_ref']),
            level_note=COMMON_NOTE + c['note'],
            technique=c['technique'],
        ))
    m = dict(
        version=1,
        setup_cmd="python3-vt checks/setup.py",
        hooks=dict(guard="SPP_VERIF",
                   enable="no source hooks: contracts are sidecars under /verif/contracts keyed by qualified name; "
                          "SPP_VERIF is not read by /repo. SPP_REPO=<dir> points the checks at another tree.",
                   baseline_off_cmd="cd /repo && /venv/bin/python -m pytest -ra -q -p no:cacheprovider --timeout=900 "
                                    "--continue-on-collection-errors",
                   source_commits=[], add_only=True),
        engines=[dict(name="pyvc", path="/verif/pyvc", serves_properties=[c['property_id'] for c in checks],
                      kind_free_text="contract-based deductive verifier for a Python subset: ast-level symbolic "
                                     "execution of the real sources, sidecar contracts, VCs discharged by z3/cvc5; "
                                     "native replay harness under /venv/bin/python")],
        checks=checks,
        notes="Exit codes of a check: 0 held, 1 VIOLATION, 3 checker error (never a verdict). Known findings and the list of repaired defects: /verif/known_findings.json (never written at run time). Seeded property-breaking changes and what reports each: /verif/seeded/<id>/ (patch.diff, demo.py, meta.json, caught.json). See DESIGN.md, section STATUS.",
        not_applicable=[dict(property_id=p, reason=NOT_YET) for p in props if p not in CLAIMED],
    )
    json.dump(m, open(os.path.join(VERIF, 'MANIFEST.json'), 'w'), indent=1)
    print("claimed:", [c['property_id'] for c in checks])


if __name__ == '__main__':
    main()
