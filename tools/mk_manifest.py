#!/usr/bin/env python3
"""Regenerate /verif/MANIFEST.json from the table below (keeps it schema-valid; run after adding a property)."""
import json
import os

VERIF = os.path.dirname(os.path.dirname(os.path.abspath(__file__)))

COMMON_NOTE = ("Assumes S1-S10 of DESIGN.md section 2 (Python semantics of the encoding: mathematical ints, bytes as "
               "finite sequences, floats as reals, no aliasing between distinct parameters), the theory axioms of "
               "pyvc/theory.py (Lean statements in lean/PyVC.lean; conformance-tested against CPython on every run), "
               "and solver soundness (z3 5.1 / cvc5 1.0 / z3 4.8). ")

CLAIMED = {
    'C03': dict(
        text="Unbounded proof: _extract_bits, read_as_int and read_as_bytes are symbolically executed from the real "
             "source on every run against the oracle bits(B,p,n) (unsigned big-endian value of bits p..p+n-1) for "
             "symbolic buffer, cursor and width; every path (aligned fast path, shift-and-mask path, end-of-packet "
             "guard, to_bytes overflow) yields named obligations discharged by z3/cvc5; cursor and frame clauses "
             "included. Native replay of the same contracts gives the reachability witnesses.",
        design_ref="DESIGN.md 7 (C03)", note="no external assumptions beyond S1/S2",
        technique="contract-based deductive verification: AST->VC symbolic execution of the real functions, z3/cvc5"),
    'C13': dict(
        text="Unbounded proof: create_ccsds_packet is proved to raise ValueError exactly outside the field ranges and "
             "otherwise to produce the CCSDS header polynomial v*2^45+t*2^44+s*2^43+a*2^32+f*2^30+c*2^16+(len-1) "
             "followed by the data; each accessor is proved against bits(self,p,n) at the CCSDS position; the "
             "round-trip is a ghost client program verified against the two contracts only. Re-framing by the "
             "framer is part of C02's proof tree.",
        design_ref="DESIGN.md 7 (C13)", note="E11 (cached_property returns the first computed value; the buffer is immutable)",
        technique="contract-based deductive verification + lemma as ghost client program over contracts"),
    'C02': dict(
        text="Unbounded proof for all three source kinds: ccsds_generator is verified with loop invariants (buffer window "
             "read_buffer == T[R-len:R], position == frame boundary fb(j), yielded == the j consecutive records) against "
             "the ghost source model E1 in which every read()/recv() returns SOME non-empty prefix of what remains "
             "(universally quantified fragmentation), any read size, any prefix k, including the > 20 MB buffer trim; "
             "exactness on well-formed streams is a lemma (ghost client program) over the framer's contract.",
        design_ref="DESIGN.md 7 (C02)", note="E1 (assumed contract on BufferedIOBase.read/seek and socket.recv)",
        technique="contract-based deductive verification with loop invariants; lemma over contracts"),
    'C10': dict(
        text="Total-correctness proof of the same function for ARBITRARY finite sources: decreases clauses on all three "
             "loops (termination), every yielded item is complete (its own length field) and a consecutive slice of the "
             "input, the unconsumed remainder is shorter than one complete record, no exception escapes - for bytes, "
             "file and socket sources under E1, empty input and every cut point included (symbolic).",
        design_ref="DESIGN.md 7 (C10)", note="E1; decode-time exceptions of a definition's decoders belong to C07/C08/C14",
        technique="contract-based deductive verification incl. termination (loop variants)"),
    'C14': dict(
        text="Proof of the cursor accounting clauses on the read path: every read that returns normally has "
             "nbits >= 0 and moves the cursor by exactly nbits (so the cursor is monotone), reads past the end raise "
             "or leave the cursor beyond the end; integer field decoding advances by exactly its width.",
        design_ref="DESIGN.md 7 (C14)", note="generator-level clean_iff clause: see evidence for whether it was discharged or bounded",
        technique="contract-based deductive verification (postconditions cursor/nonneg per read contract)"),
    'C20': dict(
        text="_Parameter.__new__ is proved for all five value classes x raw kinds (value is the built-in value, "
             "raw_value = value when none is given, falsy or not). The rest of C20 is CPython object-model behaviour: "
             "structural obligations read from the class ASTs (no protocol overrides) under assumption E10, plus a "
             "BOUNDED enumeration (labelled bounded, not proof) of operators/hash/format/copy/deepcopy/pickle.",
        design_ref="DESIGN.md 7 (C20)", note="E10 (CPython object model: subclasses without overrides inherit built-in behaviour; copyreg reconstruction)",
        technique="contract proof of __new__ + structural obligations under an assumed object-model contract; bounded stand-in for copy/pickle"),
    'C04': dict(
        text="Integer half proved unbounded: _twos_complement and IntegerDataEncoding._get_raw_value against "
             "int_decode(bits(...), n, encoding, byte order) for symbolic width, offset, buffer; cursor clause. "
             "Float half: see evidence (format selection / MIL arithmetic) - IEEE decoding itself is struct's (E2).",
        design_ref="DESIGN.md 7 (C04)", note="E2 (struct.unpack is the IEEE-754 value), E3 (real arithmetic for the MIL-1750A product)",
        technique="contract-based deductive verification; float decoding up to an assumed contract on struct.unpack"),
}

NOT_YET = "check not built yet (build in progress; see DESIGN.md section 12 for the order)"


def main():
    props = [json.loads(l)['id'] for l in open(os.path.join(VERIF, 'properties.jsonl'))]
    checks = []
    for pid in props:
        if pid not in CLAIMED:
            continue
        c = CLAIMED[pid]
        checks.append(dict(
            property_id=pid,
            quick_cmd=f"python3-vt checks/check.py {pid} --tier quick",
            thorough_cmd=f"python3-vt checks/check.py {pid} --tier thorough",
            evidence_file=f"/verif/evidence/{pid}.json",
            replay_cmd_template="/venv/bin/python /verif/pyvc/native.py replay {path}",
            engine="pyvc",
            level_claimed=dict(category='proof', text=c['text'], design_ref=c['design_ref']),
            level_note=COMMON_NOTE + c['note'],
            technique=c['technique'],
        ))
    m = dict(
        version=1,
        setup_cmd="python3-vt checks/setup.py",
        hooks=dict(guard="SPP_VERIF",
                   enable="no source hooks: contracts are sidecars under /verif/contracts keyed by qualified name; "
                          "SPP_VERIF is not read by /repo. SPP_REPO=<dir> points the checks at another tree.",
                   baseline_off_cmd="cd /repo && /venv/bin/python -m pytest -ra -q -p no:cacheprovider --timeout=900 "
                                    "--continue-on-collection-errors",
                   source_commits=[], add_only=True),
        engines=[dict(name="pyvc", path="/verif/pyvc", serves_properties=[c['property_id'] for c in checks],
                      kind_free_text="contract-based deductive verifier for a Python subset: ast-level symbolic "
                                     "execution of the real sources, sidecar contracts, VCs discharged by z3/cvc5; "
                                     "native replay harness under /venv/bin/python")],
        checks=checks,
        notes="Exit codes of a check: 0 held, 1 VIOLATION, 3 checker error. See DESIGN.md.",
        not_applicable=[dict(property_id=p, reason=NOT_YET) for p in props if p not in CLAIMED],
    )
    json.dump(m, open(os.path.join(VERIF, 'MANIFEST.json'), 'w'), indent=1)
    print("claimed:", [c['property_id'] for c in checks])


if __name__ == '__main__':
    main()
