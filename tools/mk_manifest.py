#!/usr/bin/env python3
"""Regenerate /verif/MANIFEST.json from the table below (keeps it schema-valid; run after adding a property)."""
import json
import os

VERIF = os.path.dirname(os.path.dirname(os.path.abspath(__file__)))

COMMON_NOTE = ("Assumes S1-S10 of DESIGN.md section 2 (Python semantics of the encoding: mathematical ints, bytes as "
               "finite sequences, floats as reals, no aliasing between distinct parameters), the theory axioms of "
               "pyvc/theory.py (Lean statements in lean/PyVC.lean; conformance-tested against CPython on every run), "
               "and solver soundness (z3 5.1 / cvc5 1.0 / z3 4.8). ")

BOUNDED_TECH = ("contracts on the real functions checked by the bounded native stand-in (runtime evaluation of the contract "
                "clauses against an independent reference semantics on enumerated + seeded inputs); supporting leaf "
                "contracts discharged deductively where listed in the evidence")
P = 'proof'
X = 'exploration'

CLAIMED = {
    'C01': dict(cat=X,
        text="Composition of the two halves. Decode half: the framer (C02/C10), the bit cursor (C03), integer decoding "
             "(C04) and the header accessors (C13) are PROVED unbounded; container walk, criteria, calibration, string/"
             "binary fields and the stream loop are checked against the reference semantics specs/refsem.py "
             "(ref_parse / ref_stream: item by item value, raw value and class) by the bounded stand-in. Load half: "
             "documents emitted by an independent XTCE writer in every namespace convention are loaded and compared "
             "with the same definition assembled from objects (bounded).",
        design_ref="DESIGN.md 7 (C01), 16", note="E1-E7; bounded parts listed under coverage.bounded of the evidence",
        technique=BOUNDED_TECH),
    'C02': dict(cat=P,
        text="Unbounded proof for all three source kinds: ccsds_generator is verified with loop invariants (buffer window "
             "read_buffer == T[R-len:R], position == frame boundary fb(j), yielded == the j consecutive records) against "
             "the ghost source model E1 in which every read()/recv() returns SOME non-empty prefix of what remains "
             "(universally quantified fragmentation), any read size, any prefix k, including the > 20 MB buffer trim; "
             "exactness on well-formed streams is a lemma (ghost client program) over the framer's contract.",
        design_ref="DESIGN.md 7 (C02)", note="E1 (assumed contract on BufferedIOBase.read/seek and socket.recv)",
        technique="contract-based deductive verification with loop invariants; lemma over contracts"),
    'C03': dict(cat=P,
        text="Unbounded proof: _extract_bits, read_as_int and read_as_bytes are symbolically executed from the real "
             "source on every run against the oracle bits(B,p,n) (unsigned big-endian value of bits p..p+n-1) for "
             "symbolic buffer, cursor and width; every path (aligned fast path, shift-and-mask path, end-of-packet "
             "guard, to_bytes overflow) yields named obligations discharged by z3/cvc5; cursor and frame clauses "
             "included. Native replay of the same contracts gives the reachability witnesses.",
        design_ref="DESIGN.md 7 (C03)", note="no external assumptions beyond S1/S2",
        technique="contract-based deductive verification: AST->VC symbolic execution of the real functions, z3/cvc5"),
    'C04': dict(cat=P,
        text="Integer half proved unbounded: _twos_complement and IntegerDataEncoding._get_raw_value against "
             "int_decode(bits(...), n, encoding, byte order) for symbolic width, offset and buffer, cursor clause "
             "included. The value/class selection of NumericDataEncoding.parse_value and the float half (IEEE via "
             "struct.unpack = E2, MIL-STD-1750A arithmetic) are checked by the bounded stand-in against exact-rational "
             "reference decoders (special bit patterns: signed zeros, infinities, NaN, subnormals).",
        design_ref="DESIGN.md 7 (C04)", note="E2 (struct.unpack is the IEEE-754 value), E3 (real arithmetic); float half bounded",
        technique="contract-based deductive verification (integers); bounded stand-in for floats and class selection"),
    'C05': dict(cat=X,
        text="parse_ccsds_packet and the container walk are checked against ref_parse (descend to the unique child whose "
             "criteria hold; abstract dead end / ambiguity -> unrecognized with partial data; header and user-data "
             "views) on random container trees (depth 3, overlapping criteria, nested references, unconditional "
             "inheritance) built from objects and loaded from XML; inheritor back-population is compared with the set of "
             "containers naming the base. Header accessors and the cursor reads underneath are proved (C03/C13).",
        design_ref="DESIGN.md 7 (C05), 16", note="bounded stand-in for the walk; see evidence.bounded", technique=BOUNDED_TECH),
    'C06': dict(cat=X,
        text="Comparison / Condition / BooleanExpression / DiscreteLookup.evaluate are checked against the mathematical "
             "relation (exact rationals for int-vs-float) with the literal coerced in the type of the selected value: "
             "every accepted operator spelling x both selectors x int/float/str values incl. 0, 0.0, '' and negatives; "
             "ALL ANDed/ORed trees of depth <= 3 over two conditions x all assignments, random trees to depth 5.",
        design_ref="DESIGN.md 7 (C06), 16", note="bool- and bytes-valued operands and mixed text/number operands are outside the statement (contract requires)",
        technique=BOUNDED_TECH),
    'C07': dict(cat=X,
        text="String and binary parse_value are checked against reference decoders written from the statement (field "
             "length fixed / first matching lookup / referenced raw-or-calibrated value through slope*x+intercept; binary "
             "left-padded; string raw buffer right-padded; text = whole buffer | before the first character-aligned "
             "terminator | leading size tag), cursor == old + computed length; lengths that are not whole bytes, bit "
             "offsets 0..11, seven character encodings. The bit reads underneath are proved (C03).",
        design_ref="DESIGN.md 7 (C07), 16", note="E4 (codecs are CPython's)", technique=BOUNDED_TECH),
    'C08': dict(cat=X,
        text="Numeric parse_value (first matching context calibrator, else default, else raw; calibrated results are "
             "FloatParameter; raw_value kept), polynomial and spline calibration (every knot, both end points, "
             "extrapolation on/off) are checked against exact-rational reference semantics; enumeration and boolean "
             "derivation through whole-packet decoding. Integer raw extraction underneath is proved (C04).",
        design_ref="DESIGN.md 7 (C08), 16", note="rounding is not claimed: float results compared to the exact value up to 1e-9 relative (S3)",
        technique=BOUNDED_TECH),
    'C09': dict(cat=X,
        text="Ghost program c09_roundtrip on random definitions built from objects and loaded from XML: L(W(D)) is "
             "compared with D by an independent structural comparison (adjustment callables probed) and by identical "
             "reference decoding of packets reaching every container.",
        design_ref="DESIGN.md 7 (C09), 16", note="E6: lxml is C code; no contract within the prover's reach, bounded only",
        technique="bounded stand-in only (ghost client program run natively); deductive proof not reached - lxml"),
    'C10': dict(cat=P,
        text="Total-correctness proof of the same function for ARBITRARY finite sources: decreases clauses on all three "
             "loops (termination), every yielded item is complete (its own length field) and a consecutive slice of the "
             "input, the unconsumed remainder is shorter than one complete record, no exception escapes - for bytes, "
             "file and socket sources under E1, empty input and every cut point included (symbolic).",
        design_ref="DESIGN.md 7 (C10)", note="E1; decode-time exceptions of a definition's decoders belong to C07/C08/C14",
        technique="contract-based deductive verification incl. termination (loop variants)"),
    'C11': dict(cat=X,
        text="packet_generator is checked against ref_stream: output == per-packet parsing in stream order for all option "
             "combinations, unrecognized packets in position as error objects, and the definition is structurally "
             "unchanged by parsing (canonical dump before/after). The framer it iterates is proved (C02/C10).",
        design_ref="DESIGN.md 7 (C11), 16", note="generators only, no threads", technique=BOUNDED_TECH),
    'C12': dict(cat=X,
        text="Segment reassembly is checked against the step function of the statement (per-APID open group, closed on "
             "LAST whatever the outcome): ALL histories over {FIRST,CONT,LAST,UNSEG} x 2 APIDs up to length 4 (5 in the "
             "thorough tier), random longer ones with gaps, cancelling gaps, wrap-around at 16383, secondary-header "
             "lengths 0 and 2; combined raw bytes compared.",
        design_ref="DESIGN.md 7 (C12), 16", note="bounded stand-in", technique=BOUNDED_TECH),
    'C13': dict(cat=P,
        text="Unbounded proof: create_ccsds_packet is proved to raise ValueError exactly outside the field ranges and "
             "otherwise to produce the CCSDS header polynomial v*2^45+t*2^44+s*2^43+a*2^32+f*2^30+c*2^16+(len-1) "
             "followed by the data; each accessor is proved against bits(self,p,n) at the CCSDS position; round trip "
             "and re-framing are ghost client programs verified against the contracts only; the framer is in the tree.",
        design_ref="DESIGN.md 7 (C13)", note="E11 (cached_property returns the first computed value; the buffer is immutable)",
        technique="contract-based deductive verification + lemmas as ghost client programs over contracts"),
    'C14': dict(cat=P,
        text="Proof of the cursor accounting on the read path: every read that returns normally has nbits >= 0 and moves "
             "the cursor by exactly nbits (monotone cursor), reads past the end raise or leave the cursor beyond the end, "
             "integer fields advance by their width. The generator-level clause (yielded clean iff all bits consumed; "
             "over-reads and negative lengths never clean) is checked by the bounded stand-in on streams with short, "
             "exact and long packets.",
        design_ref="DESIGN.md 7 (C14)", note="generator-level clause bounded", technique="contract-based deductive verification (cursor/nonneg postconditions); bounded stand-in at stream level"),
    'C15': dict(cat=X,
        text="Same ghost program as C09: W(D) == W(D) with a fixed date, canonical dump of D unchanged by writing, every "
             "element in the definition's namespace, and W(L(W(L(W(D))))) == W(L(W(D))) byte for byte.",
        design_ref="DESIGN.md 7 (C15), 16", note="E6: bounded only", technique="bounded stand-in only (ghost client program run natively); deductive proof not reached - lxml"),
    'C16': dict(cat=X,
        text="from_xtce on documents produced by an independent emitter in five namespace spellings, with comments between "
             "all sibling elements, after histories of 0..3 prior loads (other conventions, malformed XML, documents "
             "that fail to load): the result equals the definition assembled from objects.",
        design_ref="DESIGN.md 7 (C16), 16", note="E6: bounded only", technique="bounded stand-in only; deductive proof not reached - lxml"),
    'C17': dict(cat=X,
        text="from_xtce result is a consistent object graph (identity of every entry / nested / base link, inheritor "
             "lists == containers naming the base, each once) incl. forward references and repeated nested references; "
             "nine single-point corruptions (duplicates, undefined references, base and nesting cycles) are rejected at "
             "load.",
        design_ref="DESIGN.md 7 (C17), 16", note="E6: bounded only; cycle rejection is by RecursionError", technique="bounded stand-in only; deductive proof not reached - lxml"),
    'C18': dict(cat=X,
        text="create_dataset on flat per-APID layouts over every parameter type/encoding with value extremes (all-zero / "
             "all-one bodies), multi-APID interleavings over 1..2 files, raw and derived mode: one row per packet in "
             "order, every cell equal to the reference value. One known finding (NUL-terminated text/bytes, numpy S/U "
             "dtypes) is reported as KNOWN-FINDING.",
        design_ref="DESIGN.md 7 (C18), 16", note="E8 (numpy/xarray)", technique=BOUNDED_TECH),
    'C19': dict(cat=X,
        text="spp describe-packets / parse run through click's CliRunner with the rows handed to rich captured: files of "
             "n = 0..14, 20, 33 packets and every index 0..n+1; termination on every file follows from the PROVED "
             "termination of the framer (C10) which is in this property's proof tree.",
        design_ref="DESIGN.md 7 (C19), 16", note="E9 (click / rich)", technique=BOUNDED_TECH),
    'C20': dict(cat=P,
        text="_Parameter.__new__ is proved for all five value classes x raw kinds (value is the built-in value, "
             "raw_value = value when none is given, falsy or not). The rest of C20 is CPython object-model behaviour: "
             "structural obligations read from the class ASTs (no protocol overrides) under assumption E10, plus a "
             "BOUNDED enumeration (labelled bounded, not proof) of operators/hash/format/copy/deepcopy/pickle.",
        design_ref="DESIGN.md 7 (C20)", note="E10 (CPython object model: subclasses without overrides inherit built-in behaviour; copyreg reconstruction)",
        technique="contract proof of __new__ + structural obligations under an assumed object-model contract; bounded stand-in for copy/pickle"),
}

NOT_YET = "check not built yet (build in progress; see DESIGN.md section 12 for the order)"


def main():
    props = [json.loads(l)['id'] for l in open(os.path.join(VERIF, 'properties.jsonl'))]
    checks = []
    for pid in props:
        if pid not in CLAIMED:
            continue
        c = CLAIMED[pid]
        checks.append(dict(
            property_id=pid,
            quick_cmd=f"python3-vt checks/check.py {pid} --tier quick",
            thorough_cmd=f"python3-vt checks/check.py {pid} --tier thorough",
            evidence_file=f"/verif/evidence/{pid}.json",
            replay_cmd_template="/venv/bin/python /verif/pyvc/native.py replay {path}",
            engine="pyvc",
            level_claimed=dict(category=c['cat'], text=c['text'], design_ref=c['design_ref']),
            level_note=COMMON_NOTE + c['note'],
            technique=c['technique'],
        ))
    m = dict(
        version=1,
        setup_cmd="python3-vt checks/setup.py",
        hooks=dict(guard="SPP_VERIF",
                   enable="no source hooks: contracts are sidecars under /verif/contracts keyed by qualified name; "
                          "SPP_VERIF is not read by /repo. SPP_REPO=<dir> points the checks at another tree.",
                   baseline_off_cmd="cd /repo && /venv/bin/python -m pytest -ra -q -p no:cacheprovider --timeout=900 "
                                    "--continue-on-collection-errors",
                   source_commits=[], add_only=True),
        engines=[dict(name="pyvc", path="/verif/pyvc", serves_properties=[c['property_id'] for c in checks],
                      kind_free_text="contract-based deductive verifier for a Python subset: ast-level symbolic "
                                     "execution of the real sources, sidecar contracts, VCs discharged by z3/cvc5; "
                                     "native replay harness under /venv/bin/python")],
        checks=checks,
        notes="Exit codes of a check: 0 held, 1 VIOLATION, 3 checker error. See DESIGN.md.",
        not_applicable=[dict(property_id=p, reason=NOT_YET) for p in props if p not in CLAIMED],
    )
    json.dump(m, open(os.path.join(VERIF, 'MANIFEST.json'), 'w'), indent=1)
    print("claimed:", [c['property_id'] for c in checks])


if __name__ == '__main__':
    main()
