#!/usr/bin/env python3
"""Print the prompt given to a fresh sub-agent that seeds a property-breaking change (property text only)."""
import json, sys
pid = sys.argv[1]; wt = sys.argv[2]
n = sys.argv[3] if len(sys.argv) > 3 else "2"
for l in open('/verif/properties.jsonl'):
    p = json.loads(l)
    if p['id'] == pid: break
print(f"""You are helping test a verification setup for the Python library medley56/space_packet_parser (a pure-Python CCSDS space-packet framer and XTCE-definition-driven telemetry decoder).

You have your own scratch git worktree of the repository at {wt} (work ONLY there; never touch /repo or /verif, and do not read anything under /verif). Run Python as:  cd {wt} && PYTHONPATH={wt} /venv/bin/python ...   and the test-suite as:  cd {wt} && PYTHONPATH={wt} /venv/bin/python -m pytest -q -p no:cacheprovider --timeout=900 tests   (it takes about a minute; all tests pass on the unchanged tree). Confirm with `python -c "import space_packet_parser; print(space_packet_parser.__file__)"` that the worktree copy is the one imported.

Here is a semantic property that the library is supposed to satisfy:

TITLE: {p['title']}
STATEMENT: {p['statement']}
QUANTIFIER: {p['quantifier']['text']}
CODE ANCHORS: {json.dumps(p['anchors']['files'])}; mechanisms: {json.dumps(p['anchors']['mechanism'])}

Your task: produce {n} DIFFERENT, independent, realistic changes (bugs a developer could plausibly introduce during a refactor, optimisation or feature change) to the library source under {wt}/space_packet_parser/ each of which BREAKS this property while the code still imports/compiles and the ENTIRE existing test suite still passes. Prefer changes that need something specific to manifest - an unusual input (a particular width, offset, boundary value, length, falsy value), a multi-step sequence of operations, a particular chunking of reads, or two cooperating sites that each look fine alone - NOT ones that ordinary use or the existing tests would expose at once. Each change must be small (a few lines), must only touch files under space_packet_parser/ (never tests), and must break THIS property (behaviour the statement pins down), not merely something unrelated. If the unchanged code already violates the property for some inputs, do not rely on those inputs: your demonstration must pass on the unchanged code and fail only with your change.

For each change i (1..{n}) create a directory {wt}/seeded_out/m<i>/ containing:
  - patch.diff : the change as `git diff` output against the unchanged worktree (apply-able with `git apply` from the repo root), containing only that one change;
  - demo.py : a small standalone program (run as `PYTHONPATH=<tree> /venv/bin/python demo.py`) that exits 0 on the unchanged tree and exits non-zero (assertion failure with a clear message) with the change applied;
  - meta.json : {{"property": "{pid}", "summary": "<one line>", "needs": "<what specific input/sequence is needed for it to manifest>", "files": [...]}}.
Procedure for each: make the change, run demo.py (must fail), run the full test suite (must pass: all tests), save `git diff > seeded_out/m<i>/patch.diff`, then `git checkout -- space_packet_parser` to restore, run demo.py again (must pass). Make sure the worktree source is restored to the unchanged state at the end (git status shows only the untracked seeded_out directory).

Finish with a short report: for each change, the one-line summary, what it needs to manifest, and the test-suite result you observed (number passed/failed) with and the demo result with/without the change.""")
