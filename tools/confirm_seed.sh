#!/bin/bash
# usage: confirm_seed.sh <worktree> <prop>   -- confirms every seeded_out/m* of a worktree and copies confirmed ones to /verif/seeded
wt=$1; prop=$2; pfx=${3:-}
cd $wt || exit 1
git checkout -q -- space_packet_parser
for d in seeded_out/m*; do
  m=$(basename $d)
  [ -f $d/patch.diff ] || continue
  r_clean=$(PYTHONPATH=$wt timeout 600 /venv/bin/python $d/demo.py >/dev/null 2>&1; echo $?)
  git apply $d/patch.diff || { echo "$prop $m: patch does not apply"; continue; }
  r_mut=$(PYTHONPATH=$wt timeout 600 /venv/bin/python $d/demo.py >/dev/null 2>&1; echo $?)
  tests=$(PYTHONPATH=$wt timeout 1500 /venv/bin/python -m pytest -q -p no:cacheprovider --timeout=900 tests 2>&1 | tail -1)
  git checkout -q -- space_packet_parser
  echo "$prop $m: demo clean=$r_clean mutated=$r_mut tests: $tests"
  if [ "$r_clean" = "0" ] && [ "$r_mut" != "0" ] && echo "$tests" | grep -q "passed" && ! echo "$tests" | grep -q "failed"; then
    dest=/verif/seeded/${prop}_${pfx}$m
    mkdir -p $dest
    cp $d/patch.diff $d/demo.py $dest/
    python3 - "$d/meta.json" "$dest/meta.json" "$prop" "$tests" <<'PY'
import json,sys
src,dst,prop,tests=sys.argv[1:5]
try: m=json.load(open(src))
except Exception: m={}
m['property']=prop
m['confirmed']={'demo_unchanged_exit':0,'demo_with_change_exit':'non-zero','test_suite_with_change':tests.strip(),
  'ran':'tools/confirm_seed.sh: demo on clean worktree, git apply patch.diff, demo, full pytest suite, git checkout'}
json.dump(m,open(dst,'w'),indent=1)
PY
    echo "  -> kept as $dest"
  fi
done
