#!/usr/bin/env python3
"""dev helper: verify one contract and print obligations / verdicts"""
import sys, os, time
sys.path.insert(0, '/verif')
from pyvc.world import World
from pyvc.contract import Registry
from pyvc.verify import verify_function
from pyvc.prove import discharge

targets = sys.argv[1:]
w = World()
reg = Registry(w)
for t in targets:
    con = reg.contracts[t]
    for vn in con.variant_names():
        r = verify_function(w, reg, con, vn)
        print(f"== {t} [{vn}] status={r.status} {r.message} paths={r.paths} obligations={len(r.obligations)} symex={r.time_s:.2f}s outcomes={r.outcomes}")
        t0 = time.time()
        res, texts = discharge(r.obligations)
        for i, ob in enumerate(r.obligations):
            v = res[i]
            flag = 'OK ' if v['verdict'] == 'unsat' else 'FAIL'
            if v['verdict'] != 'unsat' or os.environ.get('V'):
                print(f"  {flag} {ob.name:60s} {v['verdict']:8s} {v['backend']:10s} {v['seconds']:.2f}s {ob.note} {v['detail'][:200] if v['verdict']!='unsat' else ''}")
        n_ok = sum(1 for v in res.values() if v['verdict'] == 'unsat')
        print(f"   discharged {n_ok}/{len(res)} in {time.time()-t0:.2f}s")
