import sys, time
sys.path.insert(0,'/verif')
import z3
from pyvc.world import World
from pyvc.contract import Registry
from pyvc.verify import verify_function
from pyvc.prove import obligation_formulas, to_smt2, _solve_z3
target, variant, pat = sys.argv[1], sys.argv[2], sys.argv[3]
w=World(); reg=Registry(w)
r=verify_function(w,reg,reg.contracts[target],variant)
n=0
for ob in r.obligations:
    if pat in ob.name:
        txt=to_smt2(obligation_formulas(ob))
        t=time.time(); res,d=_solve_z3(txt,3000); dt=time.time()-t
        if res!='unsat':
            n+=1
            print('=====',ob.name,res,round(dt,2),len(ob.pc),'pcs')
            for p in ob.pc: print('   pc:', str(z3.simplify(p)).replace('\n',' ')[:int(__import__("os").environ.get("W","230"))])
            print('   GOAL:', str(z3.simplify(ob.goal)).replace('\n',' ')[:int(__import__("os").environ.get("W","400"))])
            open(f'/tmp/hard_{n}.smt2','w').write(txt)
            if n>=int(sys.argv[4]) if len(sys.argv)>4 else 1: break
