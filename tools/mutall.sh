#!/bin/bash
# run every seeded change against the check of the property it was written for; prints one line per seed and records
# which obligations reported it in seeded/<seed>/caught.json (proof = an obligation of the deductive check that is no
# longer discharged; native = a contract clause falsified by the bounded native stand-in on a concrete input)
for d in /verif/seeded/*/; do
  s=$(basename $d); prop=${s%%_*}
  if [ -n "$1" ] && [[ ! "$s" =~ $1 ]]; then continue; fi
  out=$(/verif/tools/mut.sh $s $prop 2>&1)
  rc=$(echo "$out" | grep -o "rc=[0-9]*" | tail -1)
  echo "$out" | grep "^VIOLATION" > /tmp/mutall_viol.$$ 
  python3 - "$d" "$rc" /tmp/mutall_viol.$$ <<'PY'
import json, sys, os, re
d, rc, f = sys.argv[1:4]
proof, native, nowit = set(), set(), set()
for line in open(f):
    m = re.search(r'replay=(\S+)(.*)$', line.strip())
    if not m:
        continue
    path, suffix = m.group(1), m.group(2)
    try:
        rec = json.load(open(path))
    except Exception:
        continue
    name = rec.get('obligation', os.path.basename(path))
    if 'failed_vcs' in rec:
        (nowit if 'no-failing-input-found' in suffix else proof).add(name)
    else:
        native.add(name)
json.dump(dict(exit=rc, proof_obligations=sorted(proof), proof_obligations_without_witness=sorted(nowit),
               native_clauses=sorted(native)), open(os.path.join(d, 'caught.json'), 'w'), indent=1)
print(f"{os.path.basename(d.rstrip('/'))} {rc} proof={len(proof)} proof_nowitness={len(nowit)} native={len(native)}")
PY
  rm -f /tmp/mutall_viol.$$
done
