#!/bin/bash
# run every seeded change against the check of the property it was written for; prints one line per seed
for d in /verif/seeded/*/; do
  s=$(basename $d); prop=${s%%_*}
  if [ -n "$1" ] && [[ ! "$s" =~ $1 ]]; then continue; fi
  out=$(/verif/tools/mut.sh $s $prop 2>&1)
  rc=$(echo "$out" | grep -o "rc=[0-9]*" | tail -1)
  nv=$(echo "$out" | grep -c "^VIOLATION")
  first=$(echo "$out" | grep "^VIOLATION" | head -1 | sed 's/.*replay=//' | xargs -n1 basename 2>/dev/null | head -1)
  echo "$s $rc violations=$nv $first $(echo "$out" | grep -E 'patch failed|not in MANIFEST|unknown property|no contracts' | head -1)"
done
