#!/usr/bin/env python3
"""Markdown table of the seeded changes and what reported each (from seeded/<seed>/caught.json written by tools/mutall.sh)."""
import json, os, glob
rows = []
for d in sorted(glob.glob('/verif/seeded/*/')):
    s = os.path.basename(d.rstrip('/'))
    try:
        c = json.load(open(d + 'caught.json'))
    except Exception:
        c = None
    try:
        m = json.load(open(d + 'meta.json'))
    except Exception:
        m = {}
    def short(names, k=3):
        out = []
        for n in names:
            n = n.replace('xtce.definitions.XtcePacketDefinition.', '').replace('xtce.', '').replace('packets.', '')
            out.append('`' + n + '`')
        return ', '.join(out[:k]) + (f' (+{len(out) - k})' if len(out) > k else '')
    if c is None:
        rows.append((s, m.get('summary', '')[:90], 'not run', '', ''))
        continue
    rows.append((s, m.get('summary', '')[:110].replace('|', '/'), c['exit'],
                 short(c['proof_obligations'] + [n + ' (no witness)' for n in c['proof_obligations_without_witness']]),
                 short(c['native_clauses'])))
print('| seed | change | exit | failed proof obligations | contract clauses falsified natively |')
print('|---|---|---|---|---|')
for r in rows:
    print('| ' + ' | '.join(str(x) for x in r) + ' |')
n_proof = sum(1 for r in rows if r[3])
n_any = sum(1 for r in rows if r[2] == 'rc=1')
print(f'\n{len(rows)} seeds; {n_any} reported (exit 1); {n_proof} of them by at least one failed proof obligation.')
