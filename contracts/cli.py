"""Sidecar contracts for space_packet_parser/cli.py (C19).  click / rich are external (E9): the contracts observe the
rows handed to rich's Table and the object handed to the pretty printer."""
from pyvc.cdef import Contract
import specs.refsem as R

SCHEMA = {}
NATIVE_ENV = {k: getattr(R, k) for k in dir(R) if not k.startswith('_')}
NATIVE_ENV['expected_rows'] = lambda raws: _expected_rows(raws)
PENDING = ("contract evaluated by the bounded native stand-in only: the command bodies are wrapped by click decorators and "
           "talk to rich (E9); the row-selection logic is not yet extracted for the prover")


def _hdr(raw):
    return tuple(str(x) for x in (R.ref_bits(raw, 0, 3), R.ref_bits(raw, 3, 1), R.ref_bits(raw, 4, 1), R.ref_bits(raw, 5, 11),
                                  R.ref_bits(raw, 16, 2), R.ref_bits(raw, 18, 14), len(raw) - 7))


def _expected_rows(raws):
    """C19: every packet once, in order, when there are at most ten; otherwise first five, one ellipsis row, last five"""
    n = len(raws)
    if n <= 10:
        return [_hdr(r) for r in raws]
    return [_hdr(r) for r in raws[:5]] + [('...',) * 7] + [_hdr(r) for r in raws[-5:]]


def _gen_describe(rng, tier, variant):
    """files of n = 0..14, 20 and 33 packets (every n around the elision threshold)"""
    for n in list(range(0, 15)) + [20, 33]:
        for rep in range(2 if tier == 'quick' else 6):
            yield {'n': n, 'seed': rng.randint(0, 10 ** 6)}


def _mk_file(r, tmpdir):
    import os
    import random
    from contracts._defgen import gen_packet
    rr = random.Random(r['seed'])
    d = {'apids': [5, 9]}
    raws = [gen_packet(rr, d, body_len=rr.randint(1, 6), apid=rr.choice([5, 9])) for _ in range(r['n'])]
    p = os.path.join(tmpdir, 'pkts.bin')
    with open(p, 'wb') as fh:
        fh.write(b''.join(raws))
    return p, raws


def _run_describe(fn, args):
    import signal
    from click.testing import CliRunner
    from rich.table import Table
    import space_packet_parser.cli as cli
    captured = {'tables': [], 'messages': []}
    orig = cli.console.print

    def rec(*a, **k):
        for x in a:
            if isinstance(x, Table):
                captured['tables'].append(x)
            else:
                captured['messages'].append(str(x))
    cli.console.print = rec
    try:
        res = CliRunner().invoke(cli.spp, ['-q', 'describe-packets', args['path']])
    finally:
        cli.console.print = orig
    rows = None
    if captured['tables']:
        t = captured['tables'][0]
        rows = list(zip(*[list(c._cells) for c in t.columns])) if t.columns and t.columns[0]._cells else []
    return {'exit_code': res.exit_code, 'exception': type(res.exception).__name__ if res.exception else None,
            'rows': rows, 'messages': captured['messages']}


def _build_describe(r):
    def make():
        import tempfile
        d = tempfile.mkdtemp(prefix='verif_cli_')
        path, raws = _mk_file(r, d)
        return {'path': path, 'raws': raws}
    return {'make': make, 'invoke': _run_describe}


def _gen_parse(rng, tier, variant):
    """files of n = 0..12 packets and every packet index -1 < i <= n + 1, and no index"""
    for n in range(0, 13):
        for i in [None] + list(range(0, n + 2)):
            if tier == 'quick' and n > 4 and i is not None and 1 < i < n - 1:
                continue
            yield {'n': n, 'seed': rng.randint(0, 10 ** 6), 'index': i}


def _run_parse(fn, args):
    from click.testing import CliRunner
    import space_packet_parser.cli as cli
    captured = {'pprint': [], 'messages': []}
    orig_print, orig_pp = cli.console.print, cli.pretty.pprint
    cli.console.print = lambda *a, **k: captured['messages'].extend(str(x) for x in a)
    cli.pretty.pprint = lambda obj, **k: captured['pprint'].append(obj)
    try:
        argv = ['-q', 'parse', args['path'], args['xtce']]
        if args['index'] is not None:
            argv += ['--packet', str(args['index'])]
        res = CliRunner().invoke(cli.spp, argv)
    finally:
        cli.console.print, cli.pretty.pprint = orig_print, orig_pp
    shown = captured['pprint'][0] if captured['pprint'] else None
    return {'exit_code': res.exit_code, 'exception': type(res.exception).__name__ if res.exception else None,
            'shown': shown, 'messages': captured['messages']}


def _build_parse(r):
    def make():
        import os
        import tempfile
        from contracts._defgen import gen_definition
        from contracts._xmlgen import recipe_to_xml
        import random
        d = tempfile.mkdtemp(prefix='verif_cli_')
        path, raws = _mk_file(r, d)
        dh = gen_definition(random.Random(1), rich=False)
        dh['containers'] = dh['containers'][:1]
        dh['containers'][0]['abstract'] = False
        x = os.path.join(d, 'def.xml')
        with open(x, 'w') as fh:
            fh.write(recipe_to_xml(dh, 'prefix', 'xtce'))
        return {'path': path, 'xtce': x, 'index': r['index'], 'raws': raws}
    return {'make': make, 'invoke': _run_parse}


CONTRACTS = [
    Contract(
        target='cli.describe_packets',
        props=['C19'],
        params={}, native_only=PENDING,
        requires=[],
        ensures={
            'no_traceback': 'result["exit_code"] == 0 and result["exception"] is None',
            'rows': '(result["rows"] is None and len(raws) == 0) or '
                    '(result["rows"] is not None and [tuple(x) for x in result["rows"]] == expected_rows(raws))',
        },
        modifies=[],
        native={'gen': _gen_describe, 'build': _build_describe, 'call': 'cli.spp'},
    ),
    Contract(
        target='cli.parse',
        props=['C19'],
        params={}, native_only=PENDING,
        requires=[],
        ensures={
            'no_traceback': 'result["exit_code"] == 0 and result["exception"] is None',
            'index': ('(index is None and isinstance(result["shown"], list) and len(result["shown"]) == len(raws)) or '
                      '(index is not None and 0 <= index < len(raws) and not isinstance(result["shown"], list) and '
                      ' result["shown"] is not None and bytes(result["shown"].raw_data) == raws[index]) or '
                      '(index is not None and index >= len(raws) and result["shown"] is None and '
                      ' any("out of range" in m for m in result["messages"]))'),
        },
        modifies=[],
        native={'gen': _gen_parse, 'build': _build_parse, 'call': 'cli.spp'},
    ),
]
