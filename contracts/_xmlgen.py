"""An independent XTCE writer for definition recipes (contracts/_defgen.py): emits the document text directly, in any of
the three namespace conventions, with optional comments and whitespace between elements.  Used by the native harness
to exercise the LOAD path (C16, C17, load half of C01/C05) without going through the library's own writer."""
from xml.sax.saxutils import quoteattr, escape

URI = "http://www.omg.org/spec/XTCE/20180204"


class W:
    def __init__(self, ns_style='prefix', prefix='xtce', comments=None, rng=None, ws=True):
        self.ns_style = ns_style      # 'prefix' | 'default' | 'none'
        self.prefix = prefix
        self.rng = rng
        self.comments = comments      # None | probability of a comment between sibling elements
        self.ws = ws

    def t(self, tag):
        return f"{self.prefix}:{tag}" if self.ns_style == 'prefix' else tag

    def el(self, tag, attrs=None, children=(), text=None):
        a = ''.join(f" {k}={quoteattr(str(v))}" for k, v in (attrs or {}).items())
        if not children and text is None:
            return f"<{self.t(tag)}{a}/>"
        inner = escape(text) if text is not None else self.join(children)
        return f"<{self.t(tag)}{a}>{inner}</{self.t(tag)}>"

    def join(self, children):
        out = []
        sep = "\n" if self.ws else ""
        for c in children:
            if self.comments and self.rng.random() < self.comments:
                out.append(f"<!-- note {self.rng.randint(0, 99)} -->")
            out.append(c)
        if self.comments and self.rng.random() < self.comments:
            out.append("<!-- trailing -->")
        return sep + sep.join(out) + sep


def _cal(w, spec):
    if spec[0] == 'poly':
        return w.el('PolynomialCalibrator', children=[w.el('Term', {'coefficient': a, 'exponent': n}) for a, n in spec[1]])
    return w.el('SplineCalibrator', {'order': spec[2], 'extrapolate': str(spec[3]).lower()},
                [w.el('SplinePoint', {'raw': a, 'calibrated': b}) for a, b in spec[1]])


def _comparison(w, c):
    return w.el('Comparison', {'parameterRef': c[1], 'comparisonOperator': c[2], 'value': c[3],
                               'useCalibratedValue': str(c[4]).lower()})


def _tree(w, t):
    conds = []
    for c in t['c']:
        if len(c) == 3:
            conds.append(w.el('Condition', children=[w.el('ParameterInstanceRef', {'parameterRef': c[0]}),
                                                     w.el('ComparisonOperator', text=c[1]), w.el('Value', text=c[2])]))
        else:
            conds.append(w.el('Condition', children=[
                w.el('ParameterInstanceRef', {'parameterRef': c[0], 'useCalibratedValue': str(c[3]).lower()}),
                w.el('ComparisonOperator', text=c[1]),
                w.el('ParameterInstanceRef', {'parameterRef': c[2], 'useCalibratedValue': str(c[4]).lower()})]))
    subs = [_tree(w, s) for s in t['s']]
    return w.el('ANDedConditions' if t['k'] == 'and' else 'ORedConditions', children=conds + subs)


def _criteria(w, crit):
    if not crit:
        return []
    if crit[0][0] == 'bool':
        return [w.el('RestrictionCriteria', children=[w.el('BooleanExpression', children=[_tree(w, crit[0][1])])])]
    if len(crit) == 1:
        return [w.el('RestrictionCriteria', children=[_comparison(w, crit[0])])]
    return [w.el('RestrictionCriteria', children=[w.el('ComparisonList', children=[_comparison(w, c) for c in crit])])]


def _numeric_children(w, t):
    ch = []
    if t.get('default'):
        ch.append(w.el('DefaultCalibrator', children=[_cal(w, t['default'])]))
    if t.get('ctx'):
        ccs = []
        for crit, cal in t['ctx']:
            cm = [_comparison(w, ['cmp'] + list(c)) for c in crit]
            match = w.el('ContextMatch', children=[cm[0]] if len(cm) == 1 else [w.el('ComparisonList', children=cm)])
            ccs.append(w.el('ContextCalibrator', children=[match, w.el('Calibrator', children=[_cal(w, cal)])]))
        ch.append(w.el('ContextCalibratorList', children=ccs))
    return ch


def _adj(w, adj):
    """<LinearAdjustment>: an attribute given as None is left out (XTCE default 0 for both)"""
    a = {}
    if adj[0] is not None:
        a['slope'] = adj[0]
    if adj[1] is not None:
        a['intercept'] = adj[1]
    return w.el('LinearAdjustment', a)


def _ptype(w, t):
    x = _ptype0(w, t)
    if t.get('unit') and t['kind'] in ('int', 'float', 'enum', 'bool', 'str', 'bin'):
        # <UnitSet><Unit>..</Unit></UnitSet> as the FIRST child of the parameter type
        head, rest = x.split('>', 1)
        x = head + '>' + w.join([w.el('UnitSet', children=[w.el('Unit', text=t['unit'])])]).rstrip() + rest
    return x


def _ptype0(w, t):
    k = t['kind']
    name = t['name']
    if k == 'int':
        return w.el('IntegerParameterType', {'name': name}, [
            w.el('IntegerDataEncoding', {'sizeInBits': t['w'], 'encoding': t['enc'], 'byteOrder': t['order']},
                 _numeric_children(w, t))])
    if k == 'float':
        return w.el('FloatParameterType', {'name': name}, [
            w.el('FloatDataEncoding', {'sizeInBits': t['w'], 'encoding': t['enc'], 'byteOrder': t['order']},
                 _numeric_children(w, t))])
    if k == 'enum':
        return w.el('EnumeratedParameterType', {'name': name}, [
            w.el('IntegerDataEncoding', {'sizeInBits': t['w'], 'encoding': 'unsigned'}),
            w.el('EnumerationList', children=[w.el('Enumeration', {'label': lab, 'value': v}) for v, lab in t['enum'].items()])])
    if k == 'bool':
        return w.el('BooleanParameterType', {'name': name}, [
            w.el('IntegerDataEncoding', {'sizeInBits': t['w'], 'encoding': 'unsigned'}, _numeric_children(w, t))])
    if k == 'str':
        if t.get('ref'):
            dv = [w.el('ParameterInstanceRef', {'parameterRef': t['ref'], 'useCalibratedValue': str(t.get('use_cal', True)).lower()})]
            if t.get('adj'):
                dv.append(_adj(w, t['adj']))
            size = w.el('Variable', {'maxSizeInBits': 64}, children=[w.el('DynamicValue', children=dv)])
        else:
            size = w.el('SizeInBits', children=[w.el('Fixed', children=[w.el('FixedValue', text=str(t['bits']))])])
        return w.el('StringParameterType', {'name': name}, [w.el('StringDataEncoding', {'encoding': t['encoding']}, [size])])
    if k == 'bin':
        if t.get('ref'):
            dv = [w.el('ParameterInstanceRef', {'parameterRef': t['ref'], 'useCalibratedValue': str(t.get('use_cal', True)).lower()})]
            if t.get('adj'):
                dv.append(_adj(w, t['adj']))
            size = w.el('SizeInBits', children=[w.el('DynamicValue', children=dv)])
        else:
            size = w.el('SizeInBits', children=[w.el('FixedValue', text=str(t['bits']))])
        return w.el('BinaryParameterType', {'name': name}, [w.el('BinaryDataEncoding', children=[size])])
    if k in ('bin2', 'str2') and t.get('lookups'):
        lks = []
        for crit, v in t['lookups']:
            cm = [_comparison(w, ['cmp'] + list(c)) for c in crit]
            lks.append(w.el('DiscreteLookup', {'value': v}, [cm[0]] if len(cm) == 1 else [w.el('ComparisonList', children=cm)]))
        dl = w.el('DiscreteLookupList', children=lks)
        if k == 'bin2':
            return w.el('BinaryParameterType', {'name': name}, [w.el('BinaryDataEncoding', children=[w.el('SizeInBits', children=[dl])])])
        return w.el('StringParameterType', {'name': name}, [
            w.el('StringDataEncoding', {'encoding': t['encoding']}, [w.el('Variable', {'maxSizeInBits': 64}, children=[dl])])])
    raise ValueError(k)


def recipe_to_xml(r, ns_style='prefix', prefix='xtce', comments=None, rng=None, ws=True):
    w = W(ns_style, prefix, comments, rng, ws)
    conts = []
    for c in r['containers']:
        ch = []
        if c.get('long_description'):
            ch.append(w.el('LongDescription', text=c['long_description']))
        if c['base']:
            ch.append(w.el('BaseContainer', {'containerRef': c['base']}, _criteria(w, c['criteria'])))
        ch.append(w.el('EntryList', children=[
            w.el('ContainerRefEntry', {'containerRef': e['c']}) if isinstance(e, dict) else w.el('ParameterRefEntry', {'parameterRef': e})
            for e in c['entries']]))
        attrs = {'name': c['name']}
        if c['abstract'] or c.get('abstract_attr'):
            attrs['abstract'] = str(c['abstract']).lower()
        conts.append(w.el('SequenceContainer', attrs, ch))
    params = [w.el('Parameter', {'name': p['name'], 'parameterTypeRef': p['type']}) for p in r['params']]
    body = w.el('TelemetryMetaData', children=[
        w.el('ParameterTypeSet', children=[_ptype(w, t) for t in r['ptypes']]),
        w.el('ParameterSet', children=params),
        w.el('ContainerSet', children=conts)])
    root_attrs = {'name': 'VERIF'}
    if ns_style == 'prefix':
        root_attrs[f'xmlns:{prefix}'] = URI
    elif ns_style == 'default':
        root_attrs['xmlns'] = URI
    hdr = w.el('Header', {'date': '2024-01-01T00:00:00', 'version': '1.0', 'author': 'verif'})
    doc = w.el('SpaceSystem', root_attrs, [hdr, body])
    return '<?xml version="1.0" encoding="UTF-8"?>\n' + doc


def load_recipe(r, ns_style='prefix', prefix='xtce', comments=None, rng=None):
    """load the recipe through the library's XTCE reader"""
    import io
    from space_packet_parser.xtce.definitions import XtcePacketDefinition
    text = recipe_to_xml(r, ns_style, prefix, comments, rng)
    return XtcePacketDefinition.from_xtce(io.BytesIO(text.encode()),
                                          xtce_ns_prefix=prefix if ns_style == 'prefix' else None,
                                          root_container_name=r['root'])
