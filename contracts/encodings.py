"""Sidecar contracts for space_packet_parser/xtce/encodings.py"""
from pyvc.cdef import Contract, LoopSpec

CAL = ('rec', ['SplineCalibrator', 'PolynomialCalibrator'])
SCHEMA = {
    'NumericDataEncoding': {
        'size_in_bits': 'int', 'encoding': 'str', 'byte_order': 'str',
        'default_calibrator': ('opt', CAL),
        'context_calibrators': ('opt', ('list', ('rec', 'ContextCalibrator'))),
    },
}
PKT = ('mobj', 'CCSDSPacket')
INT_ENCODINGS = "(self.encoding == 'unsigned' or self.encoding == 'signed' or self.encoding == 'twosComplement')"
INB = 'old(packet.raw_data.pos) + self.size_in_bits <= 8 * len(packet.raw_data)'


# ---- native generators ----------------------------------------------------------------------------------------------
def _gen_twos(rng, tier, variant):
    """all widths 1..16 with all values (quick: widths 1..10 exhaustively), random widths up to 80 with boundary values"""
    top = 10 if tier == 'quick' else 14
    for w in range(1, top + 1):
        for v in range(0, 2 ** w):
            yield {'val': v, 'w': w}
    for _ in range(2000):
        w = rng.randint(1, 80)
        for v in (0, 1, 2 ** (w - 1) - 1, 2 ** (w - 1), 2 ** w - 1, rng.randrange(2 ** w)):
            yield {'val': v, 'w': w}


def _build_twos(r):
    return {'args': {'val': r['val'], 'bit_width': r['w']}}


def _gen_int(rng, tier, variant):
    """widths 1..72 x {unsigned, signed, twosComplement} x both byte orders x bit offsets 0..15, boundary and random
    bit patterns; also reads that extend past the end of the packet"""
    encs = ['unsigned', 'signed', 'twosComplement']
    orders = ['mostSignificantByteFirst', 'leastSignificantByteFirst']
    widths = list(range(1, 34)) + [40, 48, 56, 63, 64, 65, 72]
    for w in widths:
        for enc in encs:
            for order in orders:
                for off in (0, 1, 3, 7, 8, 13):
                    for pat in ('zeros', 'ones', 'msb', 'rand'):
                        nbytes = (off + w + 7) // 8 + rng.choice([0, 0, 2])
                        if pat == 'zeros':
                            buf = bytes(nbytes)
                        elif pat == 'ones':
                            buf = b'\xff' * nbytes
                        elif pat == 'msb':
                            v = 1 << (w - 1)
                            total = nbytes * 8
                            buf = (v << (total - off - w)).to_bytes(nbytes, 'big')
                        else:
                            buf = bytes(rng.getrandbits(8) for _ in range(nbytes))
                        yield {'w': w, 'enc': enc, 'order': order, 'off': off, 'buf': buf.hex()}
    for _ in range(200):
        yield {'w': rng.randint(1, 40), 'enc': rng.choice(encs), 'order': rng.choice(orders), 'off': rng.randint(0, 20),
               'buf': bytes(rng.getrandbits(8) for _ in range(rng.randint(0, 3))).hex()}


def _build_int(r):
    def make():
        from space_packet_parser.packets import CCSDSPacket
        from space_packet_parser.xtce.encodings import IntegerDataEncoding
        p = CCSDSPacket(raw_data=bytes.fromhex(r['buf']))
        p.raw_data.pos = r['off']
        return {'self': IntegerDataEncoding(r['w'], r['enc'], byte_order=r['order']), 'packet': p}
    return {'make': make}


CONTRACTS = [
    Contract(
        target='xtce.encodings.NumericDataEncoding._twos_complement',
        props=['C04', 'C01'],
        params={'val': 'int', 'bit_width': 'int'},
        returns='int',
        requires=['bit_width >= 1', 'val >= 0'],
        ensures={'value': 'implies(val < pow2(bit_width), result == twos(val, bit_width))'},
        modifies=[],
        native={'gen': _gen_twos, 'build': _build_twos},
    ),
    Contract(
        target='xtce.encodings.IntegerDataEncoding._get_raw_value',
        props=['C04', 'C14', 'C08', 'C01'],
        params={'self': ('rec', 'IntegerDataEncoding'), 'packet': PKT},
        returns='int',
        requires=['self.size_in_bits >= 1', 'packet.raw_data.pos >= 0', INT_ENCODINGS],
        ensures={
            # C04: unsigned / two's-complement value of the field's bits, little-endian byte order honoured for
            # whole-byte widths (other widths with LSB-first are left unspecified, as in the property statement)
            'value': (f"implies(({INB}) and (self.byte_order != 'leastSignificantByteFirst' or self.size_in_bits % 8 == 0), "
                      "result == int_decode(bits(packet.raw_data, old(packet.raw_data.pos), self.size_in_bits), "
                      "self.size_in_bits, self.encoding, self.byte_order))"),
            'cursor': 'packet.raw_data.pos == old(packet.raw_data.pos) + self.size_in_bits',
        },
        may_raise={'ValueError': 'packet.raw_data.pos + self.size_in_bits > 8 * len(packet.raw_data)'},
        modifies=['packet.raw_data.pos'],
        native={'gen': _gen_int, 'build': _build_int},
    ),
]
