"""Sidecar contracts for space_packet_parser/xtce/encodings.py"""
from pyvc.cdef import Contract, LoopSpec

CAL = ('rec', ['SplineCalibrator', 'PolynomialCalibrator'])
PKT_VALUES = ('mobj', 'CCSDSPacket', {'__items__': ('odict', {'kinds': ['IntParameter', 'FloatParameter', 'StrParameter'],
                                                            'rawkinds': ['int', 'real', 'str']})})
ADJ = 'xtce.encodings.DataEncoding._get_linear_adjuster.adjuster'
LOOKUPS = ('opt', ('list', ('rec', 'DiscreteLookup')))
SCHEMA = {
    'BinaryDataEncoding': {'fixed_size_in_bits': ('opt', 'int'), 'size_reference_parameter': ('opt', 'str'),
                           'use_calibrated_value': 'bool', 'size_discrete_lookup_list': LOOKUPS,
                           'linear_adjuster': ('opt', ('func', ADJ))},
    'StringDataEncoding': {'encoding': 'str', 'fixed_length': ('opt', 'int'), 'discrete_lookup_length': LOOKUPS,
                           'dynamic_length_reference': ('opt', 'str'), 'use_calibrated_value': 'bool',
                           'length_linear_adjuster': ('opt', ('func', ADJ)), 'leading_length_size': ('opt', 'int'),
                           'termination_character': ('opt', 'bytes')},
    'FloatDataEncoding': {'_struct_format': 'str', 'parse_func': ('func', 'xtce.encodings.FloatDataEncoding.parse_func')},
    'NumericDataEncoding': {
        'size_in_bits': 'int', 'encoding': 'str', 'byte_order': 'str',
        'default_calibrator': ('opt', CAL),
        'context_calibrators': ('opt', ('list', ('rec', 'ContextCalibrator'))),
    },
}
PKT = ('mobj', 'CCSDSPacket')
# the spellings the library documents: 'unsigned', XTCE's 'twosComplement', and the unofficial 'signed' and
# 'twosCompliment' [sic] named in the constructor's docstring (all but 'unsigned' are two's complement)
INT_ENCODINGS = ("(self.encoding == 'unsigned' or self.encoding == 'signed' or self.encoding == 'twosComplement' or "
                 "self.encoding == 'twosCompliment')")
INB = 'old(packet.raw_data.pos) + self.size_in_bits <= 8 * len(packet.raw_data)'


# ---- native generators ----------------------------------------------------------------------------------------------
def _gen_twos(rng, tier, variant):
    """all widths 1..16 with all values (quick: widths 1..10 exhaustively), random widths up to 80 with boundary values"""
    top = 10 if tier == 'quick' else 14
    for w in range(1, top + 1):
        for v in range(0, 2 ** w):
            yield {'val': v, 'w': w}
    for _ in range(2000):
        w = rng.randint(1, 80)
        for v in (0, 1, 2 ** (w - 1) - 1, 2 ** (w - 1), 2 ** w - 1, rng.randrange(2 ** w)):
            yield {'val': v, 'w': w}


def _build_twos(r):
    return {'args': {'val': r['val'], 'bit_width': r['w']}}


def _gen_int(rng, tier, variant):
    """widths 1..72 x {unsigned, signed, twosComplement} x both byte orders x bit offsets 0..15, boundary and random
    bit patterns; also reads that extend past the end of the packet"""
    encs = ['unsigned', 'signed', 'twosComplement', 'twosCompliment']
    orders = ['mostSignificantByteFirst', 'leastSignificantByteFirst']
    widths = list(range(1, 34)) + [40, 48, 56, 63, 64, 65, 72]
    for w in widths:
        for enc in encs:
            for order in orders:
                for off in (0, 1, 3, 7, 8, 13):
                    for pat in ('zeros', 'ones', 'msb', 'rand'):
                        nbytes = (off + w + 7) // 8 + rng.choice([0, 0, 2])
                        if pat == 'zeros':
                            buf = bytes(nbytes)
                        elif pat == 'ones':
                            buf = b'\xff' * nbytes
                        elif pat == 'msb':
                            v = 1 << (w - 1)
                            total = nbytes * 8
                            buf = (v << (total - off - w)).to_bytes(nbytes, 'big')
                        else:
                            buf = bytes(rng.getrandbits(8) for _ in range(nbytes))
                        yield {'w': w, 'enc': enc, 'order': order, 'off': off, 'buf': buf.hex()}
    for _ in range(200):
        yield {'w': rng.randint(1, 40), 'enc': rng.choice(encs), 'order': rng.choice(orders), 'off': rng.randint(0, 20),
               'buf': bytes(rng.getrandbits(8) for _ in range(rng.randint(0, 3))).hex()}


def _build_int(r):
    def make():
        from space_packet_parser.packets import CCSDSPacket
        from space_packet_parser.xtce.encodings import IntegerDataEncoding
        p = CCSDSPacket(raw_data=bytes.fromhex(r['buf']))
        p.raw_data.pos = r['off']
        return {'self': IntegerDataEncoding(r['w'], r['enc'], byte_order=r['order']), 'packet': p}
    return {'make': make}


def _build_int_ctor(r):
    def make():
        from space_packet_parser.packets import CCSDSPacket
        p = CCSDSPacket(raw_data=bytes.fromhex(r['buf']))
        p.raw_data.pos = r['off']
        return {'size_in_bits': r['w'], 'encoding': r['enc'], 'byte_order': r['order'], 'packet': p}
    return {'make': make}


CONTRACTS = [
    Contract(
        target='xtce.encodings.NumericDataEncoding._twos_complement',
        props=['C04', 'C01'],
        params={'val': 'int', 'bit_width': 'int'},
        returns='int',
        requires=['bit_width >= 1', 'val >= 0'],
        ensures={'value': 'implies(val < pow2(bit_width), result == twos(val, bit_width))'},
        modifies=[],
        native={'gen': _gen_twos, 'build': _build_twos},
    ),
    Contract(
        target='xtce.encodings.IntegerDataEncoding._get_raw_value',
        props=['C04', 'C14', 'C08', 'C01'],
        params={'self': ('rec', 'IntegerDataEncoding'), 'packet': PKT},
        returns='int',
        requires=['self.size_in_bits >= 1', 'packet.raw_data.pos >= 0', INT_ENCODINGS],
        ensures={
            # C04: unsigned / two's-complement value of the field's bits, little-endian byte order honoured for
            # whole-byte widths (other widths with LSB-first are left unspecified, as in the property statement)
            'value': (f"implies(({INB}) and (self.byte_order != 'leastSignificantByteFirst' or self.size_in_bits % 8 == 0), "
                      "result == int_decode(bits(packet.raw_data, old(packet.raw_data.pos), self.size_in_bits), "
                      "self.size_in_bits, self.encoding, self.byte_order))"),
            'cursor': 'packet.raw_data.pos == old(packet.raw_data.pos) + self.size_in_bits',
        },
        may_raise={'ValueError': 'packet.raw_data.pos + self.size_in_bits > 8 * len(packet.raw_data)'},
        modifies=['packet.raw_data.pos'],
        native={'gen': _gen_int, 'build': _build_int},
    ),
]


# =====================================================================================================================
# value derivation and string/binary fields: contracts checked by the bounded native stand-in for now
# =====================================================================================================================
import specs.refsem as _R   # noqa: E402
from contracts.comparisons import _enc, _dec, mk_value   # noqa: E402

NATIVE_ENV = {k: getattr(_R, k) for k in dir(_R) if not k.startswith('_')}
PENDING = ("contract evaluated by the bounded native stand-in only: the reference decoder (specs/refsem.py) is stated "
           "over dynamically typed definition objects; not yet translated by the symbolic front end")

SPECIAL_FLOATS = {16: ['0000', '8000', '7c00', 'fc00', '7e00', '0001', '03ff', '3c00', 'c000', '7bff'],
                  32: ['00000000', '80000000', '7f800000', 'ff800000', '7fc00000', '00000001', '007fffff',
                       '3f800000', 'c0490fdb', '7f7fffff'],
                  64: ['0000000000000000', '8000000000000000', '7ff0000000000000', 'fff0000000000000',
                       '7ff8000000000000', '0000000000000001', '000fffffffffffff', '3ff0000000000000',
                       'c00921fb54442d18', '7fefffffffffffff']}


def _mk_cal(spec):
    from space_packet_parser.xtce import calibrators as c
    if spec is None:
        return None
    if spec[0] == 'poly':
        return c.PolynomialCalibrator([c.PolynomialCoefficient(coefficient=a, exponent=n) for a, n in spec[1]])
    return c.SplineCalibrator([c.SplinePoint(raw=a, calibrated=b) for a, b in spec[1]], order=spec[2], extrapolate=spec[3])


def _mk_ctx(specs):
    from space_packet_parser.xtce import calibrators as c, comparisons as m
    if specs is None:
        return None
    out = []
    for crit, cal in specs:
        mc = [m.Comparison(lit, ref, operator=op, use_calibrated_value=uc) for ref, op, lit, uc in crit]
        out.append(c.ContextCalibrator(mc, _mk_cal(cal)))
    return out


def _mk_numeric(r):
    from space_packet_parser.xtce import encodings as e
    kw = dict(byte_order=r['order'], default_calibrator=_mk_cal(r.get('default')),
              context_calibrators=_mk_ctx(r.get('ctx')))
    if r['kind'] == 'int':
        return e.IntegerDataEncoding(r['w'], r['enc'], **kw)
    return e.FloatDataEncoding(r['w'], encoding=r['enc'], **kw)


def _mk_pkt(r):
    from space_packet_parser.packets import CCSDSPacket
    p = CCSDSPacket(raw_data=bytes.fromhex(r['buf']))
    p.raw_data.pos = r['off']
    for name, spec in r.get('items', []):
        p[name] = mk_value(spec)
    return p


def _rand_cal(rng):
    k = rng.choice(['poly', 'poly', 'spline'])
    if k == 'poly':
        return ['poly', [[rng.choice([0.5, 1.0, 2.0, -1.5, 150.0]), n] for n in range(rng.randint(1, 3))]]
    xs = sorted(rng.sample(range(0, 300, 7), rng.randint(2, 4)))
    return ['spline', [[float(x), float(rng.randint(-9, 9))] for x in xs], rng.choice([0, 1]), True]


def _gen_numeric(rng, tier, variant):
    """integer encodings (widths 1..33, 40, 64, 72; unsigned/signed/twosComplement; both byte orders; bit offsets
    0..15) and float encodings (IEEE754 16/32/64 and MILSTD_1750A, both byte orders; special bit patterns: zeros,
    signed zero, inf, NaN, subnormals, max) with no calibrator / default polynomial / default spline / context
    calibrator lists (criteria on an earlier parameter and on the field's own raw value) with and without default"""
    encs = ['unsigned', 'signed', 'twosComplement', 'twosCompliment']
    orders = ['mostSignificantByteFirst', 'leastSignificantByteFirst']
    n = 700 if tier == 'quick' else 12000
    for i in range(n):
        off = rng.choice([0, 0, 1, 3, 5, 7, 8, 13])
        mode = rng.randint(0, 2)
        items = [['MODE', ['IntParameter', mode, None]], ['LVL', ['FloatParameter', _enc(float(rng.randint(0, 3))), rng.randint(0, 3)]]]
        calkind = rng.choice(['none', 'none', 'default', 'ctx', 'ctx+default'])
        default = _rand_cal(rng) if 'default' in calkind else None
        ctx = None
        if 'ctx' in calkind:
            ctx = []
            for _ in range(rng.randint(1, 3)):
                crit = [[rng.choice(['MODE', 'MODE', 'LVL', 'SELF']), rng.choice(['==', '>=', '<', '!=']),
                         str(rng.randint(0, 3)), rng.choice([True, False])] for _ in range(rng.randint(1, 2))]
                ctx.append([crit, _rand_cal(rng)])
        if rng.random() < 0.55:
            w = rng.choice(list(range(1, 34)) + [40, 64, 72])
            order = rng.choice(orders) if w % 8 == 0 else 'mostSignificantByteFirst'
            nbytes = (off + w + 7) // 8 + rng.choice([0, 1])
            buf = rng.choice([bytes(nbytes), b'\xff' * nbytes, bytes(rng.getrandbits(8) for _ in range(nbytes))])
            yield {'kind': 'int', 'w': w, 'enc': rng.choice(encs), 'order': order, 'off': off, 'buf': buf.hex(),
                   'items': items, 'default': default, 'ctx': ctx}
        else:
            enc = rng.choice(['IEEE754', 'IEEE754', 'IEEE754_1985', 'MILSTD_1750A'])
            w = 32 if enc == 'MILSTD_1750A' else rng.choice([16, 32, 64])
            order = rng.choice(orders)
            if enc != 'MILSTD_1750A' and rng.random() < 0.5 and not (default or ctx):
                fb = bytes.fromhex(rng.choice(SPECIAL_FLOATS[w]))
                if order == 'leastSignificantByteFirst':
                    fb = fb[::-1]
            elif enc != 'MILSTD_1750A' and (default or ctx):
                # calibrated floats: moderate magnitudes only (overflow / rounding of float arithmetic is not claimed, S3)
                import struct
                fb = struct.pack({16: '>e', 32: '>f', 64: '>d'}[w], rng.choice([0.0, 1.5, -2.25, 100.0, 255.0, -0.5]))
                if order == 'leastSignificantByteFirst':
                    fb = fb[::-1]
            else:
                fb = bytes(rng.getrandbits(8) for _ in range(w // 8))
            total = (off + w + 7) // 8 + 1
            val = int.from_bytes(fb, 'big') << (total * 8 - off - w)
            noise = rng.getrandbits(off) << (total * 8 - off) if off else 0
            buf = (val | noise).to_bytes(total, 'big')
            # calibration of NaN/inf is outside the claim (S3): only calibrate finite values
            fin = not (enc != 'MILSTD_1750A' and fb.hex() in [h if order != 'leastSignificantByteFirst' else bytes.fromhex(h)[::-1].hex()
                                                               for h in SPECIAL_FLOATS[w][2:5]])
            yield {'kind': 'float', 'w': w, 'enc': enc, 'order': order, 'off': off, 'buf': buf.hex(), 'items': items,
                   'default': default if fin else None, 'ctx': ctx if fin else None}


def _build_numeric(r):
    def make():
        import warnings
        warnings.simplefilter('ignore')
        r2 = dict(r)
        if r2.get('ctx'):
            # criteria on 'SELF' reference the field itself (not yet in the packet): resolved against the current raw value
            r2['ctx'] = [[[[('THIS_FIELD' if ref == 'SELF' else ref), op, lit, uc] for ref, op, lit, uc in crit], cal]
                         for crit, cal in r2['ctx']]
        return {'self': _mk_numeric(r2), 'packet': _mk_pkt(r2)}
    return {'make': make}


_NUM_REF = 'ref_numeric_parse(self, packet, old(packet.raw_data.pos))'

# packets whose length-reference parameters are integers (int-valued floats and calibrated float references are
# covered by the bounded stand-in: the float detour of the adjuster is not integer arithmetic)
PKT_INTS = ('mobj', 'CCSDSPacket', {'__items__': ('odict', {'kinds': ['IntParameter', 'FloatParameter', 'StrParameter'], 'rawkinds': ['int', 'real', 'str']})})


def _gen_adjuster(rng, tier, variant):
    """slopes and intercepts in -8..16, arguments -4..300 (ints) and integer-valued / non-integer floats"""
    for _ in range(600):
        x = rng.randint(-4, 300) if variant == 'int' else (rng.choice(['12', 'abc', '3.5', '']) if variant == 'text' else rng.choice([float(rng.randint(0, 40)), rng.randint(0, 40) + 0.5]))
        yield {'slope': rng.randint(-8, 16), 'intercept': rng.randint(-8, 16), 'x': _enc(x)}


def _build_adjuster(r):
    def make():
        return {'__fn__': _adjuster(r['slope'], r['intercept']), 'x': _dec(r['x']), 'slope': r['slope'], 'intercept': r['intercept']}

    def invoke(fn, args):
        return args['__fn__'](args['x'])
    return {'make': make, 'invoke': invoke}


def _gen_float_ctor(rng, tier, variant):
    """every float-encoding spelling (valid, deprecated, unsupported, bogus) x sizes {8, 16, 24, 32, 48, 64, 128} x both byte
    orders (and the default spelling) x boundary / random bit patterns"""
    encs = ['IEEE754', 'IEEE754_1985', 'IEEE-754', 'MILSTD_1750A', 'MIL-1750A', 'DEC', 'IBM', 'TI', 'ieee754', 'float']
    orders = ['mostSignificantByteFirst', 'leastSignificantByteFirst', 'bogusOrder']
    for enc in encs:
        for size in (8, 16, 24, 32, 48, 64, 128):
            for order in orders:
                n = size // 8
                pats = [bytes(n), bytes([255]) * n, bytes([0x80]) + bytes(n - 1), bytes(n - 1) + bytes([0x80]),
                        bytes([0x7f]) + bytes([0xff]) * (n - 1), bytes(range(1, n + 1))]
                for _ in range(4 if tier == 'quick' else 60):
                    pats.append(bytes(rng.getrandbits(8) for _ in range(n)))
                for d in pats:
                    yield {'size': size, 'enc': enc, 'order': order, 'data': d.hex()}


def _build_float_ctor(r):
    return {'args': {'size_in_bits': r['size'], 'encoding': r['enc'], 'byte_order': r['order'], 'data': bytes.fromhex(r['data'])}}


SIZE_OK = 'result == size_spec'

CTXS = 'self.context_calibrators'
RAW = 'result.raw_value'
NOCTX = f'(is_none({CTXS}) or no_ctx_match(self, packet, {RAW}, len({CTXS})))'

CONTRACTS += [
    Contract(
        target='xtce.encodings.FloatDataEncoding.parse_func',
        props=['C04', 'C08', 'C01'],
        params={'data': 'bytes'}, captures={'self': ('rec', 'FloatDataEncoding')},
        ghost={'function_value': True},
        returns='real',
        requires=[], ensures={'value': 'result == float_field(self, data)'},
        modifies=[],
        native_only=('contract on the function VALUE stored in the field parse_func (a field has no body of its own to verify): '
                     '__init__ stores the one of its two closures (_mil_parse_func, ieee_parse_func - both proved against '
                     'float_field below) that matches the encoding, and the struct format string for (byte order, size) - '
                     'PROVED by the lemma ghost.c04_float_ctor, which executes the real constructor. Left assumed: no other '
                     'method reassigns parse_func / _struct_format after construction (checked by the bounded native run of '
                     'NumericDataEncoding.parse_value over every encoding / size / byte order)'),
    ),
    Contract(
        target='xtce.encodings.FloatDataEncoding.__init__._mil_parse_func',
        props=['C04', 'C01'],
        params={'mil_bytes': 'bytes'}, captures={'self': ('rec', 'FloatDataEncoding')},
        returns='real',
        requires=['len(mil_bytes) == 4', "self.encoding == 'MILSTD_1750A'"],
        # C04 (PROVED): the MIL-STD-1750A value of the four bytes in the declared byte order
        ensures={'value': ('result == float_field(self, mil_bytes)', ['__proof__'])},
        hints=['float_field_mil(self, mil_bytes)'],
        modifies=[],
    ),
    Contract(
        target='xtce.encodings.FloatDataEncoding.__init__.ieee_parse_func',
        props=['C04', 'C01'],
        params={'data': 'bytes'}, captures={'self': ('rec', 'FloatDataEncoding')},
        returns='real',
        requires=["self.encoding != 'MILSTD_1750A'"],
        # C04 (PROVED up to E2): struct.unpack with the stored format on exactly these bytes
        ensures={'value': ('result == float_field(self, data)', ['__proof__'])},
        hints=['float_field_ieee(self, data)'],
        modifies=[],
    ),
    Contract(
        target='xtce.encodings.FloatDataEncoding._get_raw_value',
        props=['C04', 'C08', 'C14', 'C01'],
        params={'self': ('rec', 'FloatDataEncoding'), 'packet': PKT},
        returns='real',
        requires=['self.size_in_bits >= 1', 'packet.raw_data.pos >= 0',
                  # the stored closure captured this very encoding object (established by __init__)
                  ('cap(self.parse_func, "self") == self', ['__proof__'])],
        ensures={
            # C04 (PROVED): the float value of exactly the field's bits, read at the cursor whatever its alignment
            'value': ('result == float_field(self, tb(bits(packet.raw_data, old(packet.raw_data.pos), self.size_in_bits), '
                      'ceil8(self.size_in_bits)))'),
            'cursor': 'packet.raw_data.pos == old(packet.raw_data.pos) + self.size_in_bits',
        },
        raises={'ValueError': 'packet.raw_data.pos + self.size_in_bits > 8 * len(packet.raw_data)'},
        modifies=['packet.raw_data.pos'],
    ),
    Contract(
        target='xtce.encodings.NumericDataEncoding.parse_value',
        props=['C04', 'C08', 'C01'],
        params={'packet': PKT_VALUES},
        variants={'integer': {'params': {'self': ('rec', 'IntegerDataEncoding')},
                              'requires': [INT_ENCODINGS],
                              'returns': ('pval', [('IntParameter', 'int'), ('FloatParameter', 'int')]),
                              # C08/C04 (PROVED): the raw_value attribute is the uncalibrated encoded value of the field
                              'ensures': {'raw_is_field': (
                                  f"implies(({INB}) and (self.byte_order != 'leastSignificantByteFirst' or self.size_in_bits % 8 == 0), "
                                  f"{RAW} == int_decode(bits(packet.raw_data, old(packet.raw_data.pos), self.size_in_bits), "
                                  "self.size_in_bits, self.encoding, self.byte_order))", ['__proof__'])}},
                  'float': {'params': {'self': ('rec', 'FloatDataEncoding')},
                            'requires': [('cap(self.parse_func, "self") == self', ['__proof__'])],
                            'returns': ('pval', [('FloatParameter', 'real')]),
                            'ensures': {'raw_is_field': (
                                f'{RAW} == float_field(self, tb(bits(packet.raw_data, old(packet.raw_data.pos), '
                                'self.size_in_bits), ceil8(self.size_in_bits)))', ['__proof__'])}}},
        returns=('pval', ['IntParameter', 'FloatParameter']),
        requires=['self.size_in_bits >= 1', 'packet.raw_data.pos >= 0',
                  # shape invariants of the calibrators hanging off the encoding
                  ('is_none(self.default_calibrator) or cal_ok(self.default_calibrator)', ['__proof__']),
                  (f'is_none({CTXS}) or forall(lambda k: cal_ok(at({CTXS}, k).calibrator), 0, len({CTXS}))', ['__proof__']),
                  ('packet.raw_data.pos + self.size_in_bits <= 8 * len(packet.raw_data)', ['__native__'])],
        loops={('', 0): LoopSpec(invariants={
            'no_earlier_match': f'no_ctx_match(self, packet, parsed_value, _i)'},
            hints=[f'implies(_i < len({CTXS}), ctx_match_def(at({CTXS}, _i), packet, parsed_value))'])},
        comps={0: {'elem': 'sem_crit(at(match_criteria, j), packet, parsed_value)',
                   'may_raise': ['ComparisonError', 'ValueError', 'KeyError', 'TypeError']}},
        ensures={
            # C08 (PROVED): the FIRST context calibrator whose criteria all hold, applied to the raw value ...
            'first_context_match': (
                f'is_none({CTXS}) or forall(lambda i: implies(ctx_match(at({CTXS}, i), packet, {RAW}) and '
                f'no_ctx_match(self, packet, {RAW}, i), '
                f'is_calibration(at({CTXS}, i).calibrator, toreal({RAW}), result) and cls_is(result, "FloatParameter")), '
                f'0, len({CTXS}))', ['__proof__']),
            # ... otherwise the default calibrator ...
            'default': (f'implies({NOCTX} and not is_none(self.default_calibrator), '
                        f'is_calibration(self.default_calibrator, toreal({RAW}), result) and cls_is(result, "FloatParameter"))',
                        ['__proof__']),
            # ... otherwise the raw value itself, as an int for integer encodings and a float for float encodings (C04)
            'uncalibrated': (f'implies({NOCTX} and is_none(self.default_calibrator), result == {RAW} and '
                             'cls_is(result, "IntParameter" if cls_is(self, "IntegerDataEncoding") else "FloatParameter"))',
                             ['__proof__']),
            'cursor': ('packet.raw_data.pos == old(packet.raw_data.pos) + self.size_in_bits', ['__proof__']),
            # native: value, raw value and class against the exact-rational reference decoder
            'value_exact': (f'numeric_matches(result, {_NUM_REF})', ['__native__']),
            'cursor_exact': (f'packet.raw_data.pos == {_NUM_REF}[3]', ['__native__']),
        },
        raises={'CalibrationError': ("outcome(ref_numeric_parse(self, packet, packet.raw_data.pos)) == 'CalibrationError'", ['__native__']),
                'ComparisonError': ("outcome(ref_numeric_parse(self, packet, packet.raw_data.pos)) == 'ComparisonError'", ['__native__']),
                'ValueError': ("outcome(ref_numeric_parse(self, packet, packet.raw_data.pos)) == 'ValueError'", ['__native__'])},
        may_raise={'CalibrationError': ('True', ['__proof__']), 'ComparisonError': ('True', ['__proof__']),
                   'ValueError': ('True', ['__proof__']), 'KeyError': ('True', ['__proof__']), 'TypeError': ('True', ['__proof__'])},
        modifies=['packet.raw_data.pos'],
        native={'gen': _gen_numeric, 'build': _build_numeric},
    ),
]

_OLD_PARSE_VALUE = [
    Contract(
        target='__superseded__.NumericDataEncoding.parse_value',
        props=['C04', 'C08', 'C01'],
        params={}, native_only=PENDING,
        requires=['self.size_in_bits >= 1', 'packet.raw_data.pos >= 0',
                  'packet.raw_data.pos + self.size_in_bits <= 8 * len(packet.raw_data)'],
        ensures={
            # value, raw value and class (int / float; calibrated results are floats) as XTCE prescribes
            'value': f'numeric_matches(result, {_NUM_REF})',
            'cursor': f'packet.raw_data.pos == {_NUM_REF}[3]',
        },
        raises={'CalibrationError': "outcome(ref_numeric_parse(self, packet, packet.raw_data.pos)) == 'CalibrationError'",
                'ComparisonError': "outcome(ref_numeric_parse(self, packet, packet.raw_data.pos)) == 'ComparisonError'",
                'ValueError': "outcome(ref_numeric_parse(self, packet, packet.raw_data.pos)) == 'ValueError'"},
        modifies=['packet.raw_data.pos'],
        native={'gen': _gen_numeric, 'build': _build_numeric},
    ),
]


# ---- string and binary fields (C07) ------------------------------------------------------------------------------------
def _adjuster(slope, intercept):
    """the repository's own closure, obtained through its XML reader (the oracle uses (slope, intercept) directly)"""
    import lxml.etree as ET
    from space_packet_parser.xtce.encodings import DataEncoding
    el = ET.fromstring(f'<DynamicValue><LinearAdjustment slope="{slope}" intercept="{intercept}"/></DynamicValue>')
    return DataEncoding._get_linear_adjuster(el)


def _mk_lookups(specs):
    from space_packet_parser.xtce import comparisons as m
    return [m.DiscreteLookup([m.Comparison(lit, ref, operator=op, use_calibrated_value=uc) for ref, op, lit, uc in crit],
                             _dec(val)) for crit, val in specs]


def _len_spec(rng, want_bits):
    """a length specification producing want_bits: fixed / lookup / reference (+ adjustment), and the packet items"""
    kind = rng.choice(['fixed', 'lookup', 'ref', 'ref_adj', 'ref_raw'])
    items = [['MODE', ['IntParameter', rng.randint(0, 2), None]]]
    if kind == 'fixed':
        return {'len': ['fixed', want_bits]}, items
    if kind == 'lookup':
        mode = items[0][1][1]
        entries = []
        for m in range(3):
            crit = [['MODE', '==', str(m), rng.choice([True, False])]]
            entries.append([crit, _enc(float(want_bits if m == mode else rng.choice([0, 8, 24])))])
        if rng.random() < 0.3:
            # an earlier entry that also matches wins (first match), possibly with value 0
            first = rng.choice([0, 16])
            entries.insert(0, [[['MODE', '>=', '0', True]], _enc(float(first))])
            return {'len': ['lookup', entries], 'expect_bits': first}, items
        return {'len': ['lookup', entries]}, items
    if kind == 'ref':
        items.append(['LEN', ['IntParameter', want_bits, None]])
        return {'len': ['ref', 'LEN', True, None]}, items
    if kind == 'ref_raw':
        items.append(['LEN', ['FloatParameter', _enc(float(want_bits) * 2 + 1), want_bits]])
        return {'len': ['ref', 'LEN', False, None]}, items
    # reference in bytes through a linear adjustment slope*x + intercept
    slope = rng.choice([8, 1, 2])
    intercept = want_bits % slope
    x = (want_bits - intercept) // slope
    cal = rng.choice([True, False])
    if cal:
        items.append(['LEN', [rng.choice(['IntParameter', 'FloatParameter']), _enc(float(x)) if False else x, 99]])
    else:
        items.append(['LEN', ['FloatParameter', _enc(123.5), x]])
    return {'len': ['ref', 'LEN', cal, [slope, intercept]]}, items


def _gen_binary(rng, tier, variant):
    """binary fields of 0..40 bits (whole and partial bytes) at bit offsets 0..15, length fixed / looked up (first
    match, value 0 included) / referenced raw or calibrated (int- and float-valued) with and without linear adjustment;
    packets long enough, exactly long enough and too short"""
    for _ in range(500 if tier == 'quick' else 8000):
        L = rng.choice([0, 1, 3, 7, 8, 9, 12, 16, 17, 24, 31, 32, 40])
        off = rng.choice([0, 0, 1, 4, 7, 8, 11])
        spec, items = _len_spec(rng, L)
        eff = spec.get('expect_bits', L)
        nbytes = max(0, (off + eff + 7) // 8 + rng.choice([0, 0, 1, -1]))
        buf = bytes(rng.getrandbits(8) for _ in range(nbytes))
        yield {'spec': spec, 'items': items, 'off': off, 'buf': buf.hex()}


def _mk_binary(r):
    from space_packet_parser.xtce import encodings as e
    k = r['spec']['len']
    if k[0] == 'fixed':
        return e.BinaryDataEncoding(fixed_size_in_bits=k[1]), None
    if k[0] == 'lookup':
        return e.BinaryDataEncoding(size_discrete_lookup_list=_mk_lookups(k[1])), None
    adj = k[3]
    return e.BinaryDataEncoding(size_reference_parameter=k[1], use_calibrated_value=k[2],
                                linear_adjuster=_adjuster(*adj) if adj else None), adj


def _build_binary(r):
    def make():
        enc, adj = _mk_binary(r)
        return {'self': enc, 'packet': _mk_pkt(r), 'adj': adj}
    return {'make': make, 'call_with': ['self', 'packet']}


def _gen_binary_ctor(rng, tier, variant):
    """fixed sizes -1..40 and 64, 65 bits at bit offsets 0..11, packets long enough, exactly long enough, too short"""
    for n in list(range(-1, 41)) + [64, 65]:
        for off in (0, 1, 4, 7, 8, 11):
            for slack in (0, 1, -1):
                nbytes = max(0, (off + max(n, 0) + 7) // 8 + slack)
                yield {'n': n, 'off': off, 'buf': bytes(rng.getrandbits(8) for _ in range(nbytes)).hex()}


def _build_binary_ctor(r):
    def make():
        from space_packet_parser.packets import CCSDSPacket
        p = CCSDSPacket(raw_data=bytes.fromhex(r['buf']))
        p.raw_data.pos = r['off']
        return {'fixed_size_in_bits': r['n'], 'packet': p}
    return {'make': make}


TEXTS = ['', 'A', 'Hello', 'x y', 'é', 'Ωmega', 'AB\x00C']


def _gen_string(rng, tier, variant):
    """string fields: encodings US-ASCII / ISO-8859-1 / Windows-1252 / UTF-8 / UTF-16BE / UTF-16LE / UTF-32BE;
    whole buffer, termination character (hex, in the same encoding) and leading size tag (8 or 16 bits) delimiting;
    buffer lengths that are and are not whole bytes; bit offsets 0..11; the three length specifications"""
    encs = ['US-ASCII', 'ISO-8859-1', 'Windows-1252', 'UTF-8', 'UTF-16BE', 'UTF-16LE', 'UTF-32BE']
    n = 600 if tier == 'quick' else 9000
    for _ in range(n):
        enc = rng.choice(encs)
        text = rng.choice(TEXTS)
        try:
            tb = text.encode(enc)
        except UnicodeEncodeError:
            text = 'plain'
            tb = text.encode(enc)
        delim = rng.choice(['none', 'term', 'lead'])
        filler = rng.choice([b'', 'zz'.encode(enc)])
        if delim == 'term':
            tc = '\x00' if '\x00' not in text else '~'
            tcb = tc.encode(enc)
            if tcb in tb and not tb.index(tcb) % len(tcb) == 0:
                continue
            payload = tb + tcb + filler
            extra = {'term': tcb.hex()}
        elif delim == 'lead':
            s = rng.choice([8, 16])
            if len(tb) * 8 >= 2 ** s:
                continue
            payload = (len(tb) * 8).to_bytes(s // 8, 'big') + tb + filler
            extra = {'lead': s}
        else:
            payload = tb
            extra = {}
        L = len(payload) * 8 - rng.choice([0, 0, 0, 3]) if delim == 'none' and enc in ('US-ASCII', 'ISO-8859-1') else len(payload) * 8
        if L <= 0:
            L = 8
            payload = b'A'
        off = rng.choice([0, 0, 3, 8, 11])
        spec, items = _len_spec(rng, L)
        if spec.get('expect_bits', L) == 0 and delim != 'none':
            continue
        total_bits = off + len(payload) * 8
        nbytes = (total_bits + 7) // 8 + rng.choice([0, 1])
        val = int.from_bytes(payload, 'big') << (nbytes * 8 - off - len(payload) * 8)
        noise = (rng.getrandbits(off) << (nbytes * 8 - off)) if off else 0
        buf = (val | noise).to_bytes(nbytes, 'big')
        d = {'spec': spec, 'items': items, 'off': off, 'buf': buf.hex(), 'enc': enc}
        d.update(extra)
        yield d
    # fields that start inside a byte, are not a whole number of bytes long and end exactly with the packet
    for off in (1, 3, 5, 11):
        for nchars in (1, 3, 4):
            for delim in ('none', 'lead'):
                text = 'abcd'[:nchars]
                payload = text.encode('US-ASCII')
                lead = 5 if delim == 'lead' else 0
                L = lead + 8 * nchars
                total = off + L
                if total % 8 != 0:
                    # pad the FIELD (not the packet) so that it ends on the last bit of the packet
                    L += 8 - total % 8
                    total = off + L
                if L % 8 == 0:
                    continue
                field = ((8 * nchars) << (L - lead) if lead else 0) | (int.from_bytes(payload, 'big') << (L - lead - 8 * nchars))
                nbytes = total // 8
                buf = ((rng.getrandbits(off) << (nbytes * 8 - off)) | field).to_bytes(nbytes, 'big')
                d = {'spec': {'len': ['fixed', L], 'expect_bits': L}, 'items': [], 'off': off, 'buf': buf.hex(), 'enc': 'US-ASCII'}
                if lead:
                    d['lead'] = lead
                yield d


def _mk_string(r):
    from space_packet_parser.xtce import encodings as e
    k = r['spec']['len']
    kw = dict(encoding=r['enc'], termination_character=r.get('term'), leading_length_size=r.get('lead'))
    adj = None
    if k[0] == 'fixed':
        kw['fixed_raw_length'] = k[1]
    elif k[0] == 'lookup':
        kw['discrete_lookup_length'] = _mk_lookups(k[1])
    else:
        adj = k[3]
        kw.update(dynamic_length_reference=k[1], use_calibrated_value=k[2],
                  length_linear_adjuster=_adjuster(*adj) if adj else None)
    return e.StringDataEncoding(**kw), adj


def _build_string(r):
    def make():
        enc, adj = _mk_string(r)
        return {'self': enc, 'packet': _mk_pkt(r), 'adj': adj}
    return {'make': make, 'call_with': ['self', 'packet']}


STR_REF_VALUE = ('(packet[self.dynamic_length_reference] if self.use_calibrated_value else '
                 'packet[self.dynamic_length_reference].raw_value)')
BIN_REF_VALUE = ('(packet[self.size_reference_parameter] if self.use_calibrated_value else '
                 'packet[self.size_reference_parameter].raw_value)')


def _size_contract(target, fixed, lookups, ref, adj, refval, fixed_truthy, consumer=None):
    fixed_sel = f'(not is_none(self.{fixed}) and self.{fixed} != 0)' if fixed_truthy else f'not is_none(self.{fixed})'
    look_sel = f'(not ({fixed_sel}) and not is_none(self.{lookups}) and len(self.{lookups}) > 0)' if fixed_truthy else \
        f'(is_none(self.{fixed}) and is_none(self.{ref}) and not is_none(self.{lookups}))'
    ref_sel = (f'(not ({fixed_sel}) and (is_none(self.{lookups}) or len(self.{lookups}) == 0) and not is_none(self.{ref}) '
               f'and self.{ref} != "")') if fixed_truthy else f'(is_none(self.{fixed}) and not is_none(self.{ref}))'
    adjusted = (f'(cap(self.{adj}, "slope") * {refval} + cap(self.{adj}, "intercept") '
                f'if (not is_none(self.{adj})) else {refval})')
    clauses = {
        # C07 (PROVED): the computed field length
        'fixed': (f'implies({fixed_sel}, RESULT == self.{fixed})', ['__proof__']),
        # ... the value of the FIRST lookup entry whose criteria all hold (a value of 0 included)
        'first_lookup': (f'implies({look_sel}, exists(lambda i: first_lookup_value(self.{lookups}, packet, i) and '
                         f'RESULT == trunc(at(self.{lookups}, i).lookup_value), 0, len(self.{lookups})))', ['__proof__']),
        # ... or the referenced parameter (raw or calibrated as declared) through slope * x + intercept
        'reference': (f'implies({ref_sel} and kind_is({refval}, "int"), RESULT == {adjusted})', ['__proof__']),
        # ... a float-valued reference (a calibrated value): through the adjustment when there is one (which must give a
        # whole number), else truncated
        'reference_float_adjusted': (f'implies({ref_sel} and kind_is({refval}, "real") and not is_none(self.{adj}), '
                                     f'toreal(RESULT) == cap(self.{adj}, "slope") * {refval} + cap(self.{adj}, "intercept"))',
                                     ['__proof__']),
        'reference_float_plain': (f'implies({ref_sel} and kind_is({refval}, "real") and is_none(self.{adj}), '
                                  f'RESULT == trunc({refval}))', ['__proof__']),
    }
    if consumer is not None:
        return {k: (v[0].replace('RESULT', consumer), v[1]) for k, v in clauses.items()}
    NOFIX = f'is_none(self.{fixed}) or self.{fixed} == 0' if fixed_truthy else f'is_none(self.{fixed})'
    clauses = {k: (v[0].replace('RESULT', 'result'), v[1]) for k, v in clauses.items()}
    return Contract(
        target=target,
        # C06: the looked-up lengths are what DiscreteLookup results select (its last sentence)
        props=['C07', 'C14', 'C01', 'C06'],
        params={'self': ('rec', target.split('.')[2]), 'packet': PKT_INTS},
        returns='int',
        # a linear adjustment only accompanies a parameter reference (that is how the XTCE reader builds encodings, and
        # what StringDataEncoding's constructor enforces)
        requires=([f'is_none(self.{adj}) or (is_none(self.{fixed}) and not is_none(self.{ref}))'] if not fixed_truthy else []) +
        [],
        loops={('', 0): LoopSpec(invariants={
            'no_earlier_match': f'forall(lambda k: not dl_match(at(self.{lookups}, k), packet, None), 0, _i)'})},
        ensures=clauses,
        # a fixed size needs no other parameter and no lookup: nothing can go wrong in computing it
        may_raise={'ValueError': NOFIX, 'KeyError': NOFIX, 'ComparisonError': NOFIX},
        modifies=[],
    )


_BIN_REF = 'ref_binary_parse(self, packet, old(packet.raw_data.pos), adj)'
_STR_REF = 'ref_string_parse(self, packet, old(packet.raw_data.pos), adj)'
_N = '(packet.raw_data.pos - old(packet.raw_data.pos))'
_LEAD = 'not is_none(self.leading_length_size) and self.leading_length_size != 0'
_W = 'len(self.termination_character)'
_TAG = 'bits(result.raw_value, 0, self.leading_length_size)'
_RTAG = 'bits(raw_string_buffer, 0, self.leading_length_size)'

CONTRACTS += [
    Contract(
        target=ADJ,
        props=['C07', 'C01'],
        params={}, captures={'slope': 'int', 'intercept': 'int'},
        variants={'int': {'params': {'x': 'int'}, 'ensures': {'value': 'result == slope * x + intercept'}},
                  # a float argument (a calibrated reference): slope * x + intercept over the reals, which must be a whole
                  # number (ValueError otherwise) - the argument itself need not be one
                  # a text-valued reference is outside the statement: whatever float(x) makes of it, or ValueError
                  'text': {'params': {'x': 'str'}, 'may_raise': {'ValueError': 'True'}},
                  'float': {'params': {'x': 'real'},
                            'ensures': {'value': ('toreal(result) == slope * x + intercept', ['__proof__']),
                                        'value_exact': ('result == slope * x + intercept', ['__native__'])},
                            'raises': {'ValueError': 'not is_int_valued(slope * x + intercept)'}}},
        returns='int',
        ensures={},
        modifies=[],
        native={'gen': _gen_adjuster, 'build': _build_adjuster, 'call': 'xtce.encodings.DataEncoding._get_linear_adjuster'},
    ),
    _size_contract('xtce.encodings.StringDataEncoding._calculate_size', 'fixed_length', 'discrete_lookup_length',
                   'dynamic_length_reference', 'length_linear_adjuster', STR_REF_VALUE, True),
    _size_contract('xtce.encodings.BinaryDataEncoding._calculate_size', 'fixed_size_in_bits', 'size_discrete_lookup_list',
                   'size_reference_parameter', 'linear_adjuster', BIN_REF_VALUE, False),
    Contract(
        target='xtce.encodings.StringDataEncoding._get_raw_buffer',
        props=['C07', 'C14', 'C01'],
        params={'self': ('rec', 'StringDataEncoding'), 'packet': PKT_INTS},
        returns='bytes',
        requires=['packet.raw_data.pos >= 0'],
        hints_after={'buflen_bytes': ['pow2_add(buflen_bits, pad_bits)']},
        ensures=dict(
            # C07 (PROVED): the raw value of a string is its whole buffer, RIGHT-padded with zero bits to whole bytes
            length=('len(result) == ceil8((packet.raw_data.pos - old(packet.raw_data.pos)))', ['__proof__']),
            value=('implies(old(packet.raw_data.pos) + (packet.raw_data.pos - old(packet.raw_data.pos)) <= 8 * len(packet.raw_data), be(result) == '
                   'bits(packet.raw_data, old(packet.raw_data.pos), (packet.raw_data.pos - old(packet.raw_data.pos))) * pow2((8 - (packet.raw_data.pos - old(packet.raw_data.pos)) % 8) % 8))', ['__proof__']),
            nonneg=('(packet.raw_data.pos - old(packet.raw_data.pos)) >= 0', ['__proof__']),
            **_size_contract('xtce.encodings.StringDataEncoding._calculate_size', 'fixed_length', 'discrete_lookup_length',
                             'dynamic_length_reference', 'length_linear_adjuster', STR_REF_VALUE, True, consumer='(packet.raw_data.pos - old(packet.raw_data.pos))'),
        ),
        may_raise={'ValueError': 'True', 'KeyError': 'True', 'ComparisonError': 'True'},
        # C07 (PROVED): once the length is computed, ValueError only for a negative length or a field that extends past
        # the end of the packet - a field that lies inside the packet is never rejected
        ensures_raise={'ValueError': {'only_bad_length': (
            "implies(bound('buflen_bits'), buflen_bits < 0 or "
            "old(packet.raw_data.pos) + buflen_bits > 8 * len(packet.raw_data))", ['__proof__'])}},
        modifies=['packet.raw_data.pos'],
    ),
    Contract(
        target='xtce.encodings.BinaryDataEncoding.parse_value',
        props=['C07', 'C14', 'C01'],
        params={'self': ('rec', 'BinaryDataEncoding'), 'packet': PKT_INTS},
        returns=('pval', ['BinaryParameter']),
        requires=['packet.raw_data.pos >= 0',
                  ('is_none(self.linear_adjuster) or (is_none(self.fixed_size_in_bits) and not is_none(self.size_reference_parameter))', ['__proof__'])],
        ensures=dict(
            # C07 (PROVED): exactly the bits of the field, left-padded to whole bytes; the cursor advances by the computed
            # length (the three length clauses below are those of _calculate_size, stated on the consumed bit count)
            value=('be(result) == bits(packet.raw_data, old(packet.raw_data.pos), (packet.raw_data.pos - old(packet.raw_data.pos))) and '
                   'len(result) == ceil8((packet.raw_data.pos - old(packet.raw_data.pos))) and result.raw_value == result', ['__proof__']),
            nonneg=('(packet.raw_data.pos - old(packet.raw_data.pos)) >= 0', ['__proof__']),
            **_size_contract('xtce.encodings.BinaryDataEncoding._calculate_size', 'fixed_size_in_bits',
                             'size_discrete_lookup_list', 'size_reference_parameter', 'linear_adjuster', BIN_REF_VALUE,
                             False, consumer='(packet.raw_data.pos - old(packet.raw_data.pos))'),
            value_exact=(f"bytes(result) == {_BIN_REF}[0] and cls_is(result, 'BinaryParameter') and "
                         f"result.raw_value == {_BIN_REF}[0]", ['__native__']),
            cursor_exact=(f'packet.raw_data.pos == {_BIN_REF}[1]', ['__native__']),
        ),
        raises={'ValueError': ("outcome(ref_binary_parse(self, packet, packet.raw_data.pos, adj)) == 'ValueError'", ['__native__']),
                'KeyError': ("outcome(ref_binary_parse(self, packet, packet.raw_data.pos, adj)) == 'KeyError'", ['__native__']),
                'ComparisonError': ("outcome(ref_binary_parse(self, packet, packet.raw_data.pos, adj)) == 'ComparisonError'", ['__native__'])},
        # C07 / C14 (PROVED): a fixed-size field is rejected only when the size is negative or the field does not fit
        may_raise={'ValueError': ('is_none(self.fixed_size_in_bits) or self.fixed_size_in_bits < 0 or '
                                  'packet.raw_data.pos + self.fixed_size_in_bits > 8 * len(packet.raw_data)', ['__proof__']),
                   'KeyError': ('is_none(self.fixed_size_in_bits)', ['__proof__']),
                   'ComparisonError': ('is_none(self.fixed_size_in_bits)', ['__proof__'])},
        ensures_raise={'ValueError': {'only_bad_length': (
            "implies(bound('nbits'), nbits < 0 or old(packet.raw_data.pos) + nbits > 8 * len(packet.raw_data))",
            ['__proof__'])}},
        modifies=['packet.raw_data.pos'],
        native={'gen': _gen_binary, 'build': _build_binary},
    ),
    Contract(
        target='xtce.encodings.StringDataEncoding.parse_value',
        props=['C07', 'C14', 'C01'],
        params={'self': ('rec', 'StringDataEncoding'), 'packet': PKT_INTS},
        returns=('pval', [('StrParameter', 'bytes')]),
        requires=['packet.raw_data.pos >= 0',
                  # native side: buffers inside the packet (past the end the field is unspecified, see ref_string_parse)
                  ("outcome(ref_string_parse(self, packet, packet.raw_data.pos, adj)) != 'PastEnd'", ['__native__']),
                  ('is_none(self.length_linear_adjuster) or (is_none(self.fixed_length) and not is_none(self.dynamic_length_reference))', ['__proof__'])],
        ensures=dict(
            # C07 (PROVED): the raw value is the whole buffer, RIGHT-padded with zero bits to whole bytes; the cursor
            # advances by the computed length (the three length clauses are those of _calculate_size)
            raw_length=(f'len(result.raw_value) == ceil8({_N})', ['__proof__']),
            raw_value=(f'implies(old(packet.raw_data.pos) + {_N} <= 8 * len(packet.raw_data), be(result.raw_value) == '
                       f'bits(packet.raw_data, old(packet.raw_data.pos), {_N}) * pow2((8 - {_N} % 8) % 8))', ['__proof__']),
            nonneg=(f'{_N} >= 0', ['__proof__']),
            **_size_contract('xtce.encodings.StringDataEncoding._calculate_size', 'fixed_length', 'discrete_lookup_length',
                             'dynamic_length_reference', 'length_linear_adjuster', STR_REF_VALUE, True, consumer=_N),
            # C07 (PROVED): the value is the decoded text of the entire buffer ...
            whole=(f'implies(not ({_LEAD}) and is_none(self.termination_character), '
                   f'result == decode(result.raw_value, self.encoding))', ['__proof__']),
            # ... or of the part before the FIRST termination character at a character boundary ...
            terminated=(f'implies(not ({_LEAD}) and not is_none(self.termination_character), '
                        f'exists(lambda i: i % {_W} == 0 and i + {_W} <= len(result.raw_value) and '
                        f'sl(result.raw_value, i, i + {_W}) == self.termination_character and '
                        f'forall(lambda k: implies(k % {_W} == 0, sl(result.raw_value, k, k + {_W}) != self.termination_character), 0, i, '
                        f'pattern=lambda: sl(result.raw_value, k, k + {_W})) and '
                        f'result == decode(sl(result.raw_value, 0, i), self.encoding), 0, len(result.raw_value), '
                        f'pattern=lambda: sl(result.raw_value, i, i + {_W})))', ['__proof__']),
            # ... or of the part whose bit length is given by the leading size tag
            leading=(f'implies({_LEAD}, {_TAG} % 8 == 0 and result == decode(tb(bits(result.raw_value, '
                     f'self.leading_length_size, {_TAG}), {_TAG} // 8), self.encoding))', ['__proof__']),
            value=(f"str(result) == {_STR_REF}[0] and cls_is(result, 'StrParameter')", ['__native__']),
            raw=(f'result.raw_value == {_STR_REF}[1] and type(result.raw_value) is bytes', ['__native__']),
            cursor=(f'packet.raw_data.pos == {_STR_REF}[2]', ['__native__']),
        ),
        raises={'ValueError': ("outcome(ref_string_parse(self, packet, packet.raw_data.pos, adj)) == 'ValueError'", ['__native__']),
                'KeyError': ("outcome(ref_string_parse(self, packet, packet.raw_data.pos, adj)) == 'KeyError'", ['__native__']),
                'UnicodeDecodeError': ("outcome(ref_string_parse(self, packet, packet.raw_data.pos, adj)) == 'UnicodeDecodeError'", ['__native__']),
                'ComparisonError': ("outcome(ref_string_parse(self, packet, packet.raw_data.pos, adj)) == 'ComparisonError'", ['__native__'])},
        may_raise={'ValueError': ('True', ['__proof__']), 'KeyError': ('True', ['__proof__']),
                   'UnicodeDecodeError': ('True', ['__proof__']), 'ComparisonError': ('True', ['__proof__'])},
        # C07 (PROVED): once the buffer has been read, ValueError only when the leading size tag does not describe a
        # whole number of bytes inside the buffer, or no termination character stands at a character boundary
        ensures_raise={'ValueError': {'only_undelimited': (
            "implies(bound('raw_string_buffer'), "
            f"(({_LEAD}) and ({_RTAG} % 8 != 0 or self.leading_length_size + {_RTAG} > 8 * len(raw_string_buffer) or "
            "self.leading_length_size > 8 * len(raw_string_buffer) or self.leading_length_size < 0)) or "
            f"(not ({_LEAD}) and not is_none(self.termination_character) and ({_W} == 0 or "
            f"forall(lambda k: implies(k % {_W} == 0 and k + {_W} <= len(raw_string_buffer), "
            f"sl(raw_string_buffer, k, k + {_W}) != self.termination_character), 0, len(raw_string_buffer), "
            f"pattern=lambda: sl(raw_string_buffer, k, k + {_W})))))", ['__proof__'])}},
        reveal=['bits'],
        modifies=['packet.raw_data.pos'],
        native={'gen': _gen_string, 'build': _build_string},
    ),
    # ---- lemma: the integer constructor keeps (size, encoding, byte order) as declared, so that the proved contract of
    # _get_raw_value - stated over the object's fields - is a statement about the DECLARED encoding
    Contract(
        target='ghost.c04_int_ctor',
        props=['C04', 'C01'],
        params={'size_in_bits': 'int', 'encoding': 'str', 'byte_order': 'str', 'packet': PKT},
        returns='any',
        requires=['size_in_bits >= 1', 'packet.raw_data.pos >= 0',
                  'packet.raw_data.pos + size_in_bits <= 8 * len(packet.raw_data)',
                  "(encoding == 'unsigned' or encoding == 'signed' or encoding == 'twosComplement' or "
                  "encoding == 'twosCompliment')"],
        ensures={}, modifies=['packet.raw_data.pos'],
        native={'gen': _gen_int, 'build': _build_int_ctor},
    ),
    # ---- lemma: a fixed-size binary encoding built by the REAL constructor, decoded through the contract of parse_value
    Contract(
        target='ghost.c07_binary_ctor',
        props=['C07', 'C01'],
        params={'fixed_size_in_bits': 'int', 'packet': PKT_INTS},
        returns='any',
        requires=['packet.raw_data.pos >= 0'],
        ensures={}, modifies=['packet.raw_data.pos'],
        may_raise={'ValueError': 'fixed_size_in_bits < 0 or packet.raw_data.pos + fixed_size_in_bits > 8 * len(packet.raw_data)'},
        native={'gen': _gen_binary_ctor, 'build': _build_binary_ctor},
    ),
    # ---- lemma (ghost client program): what the REAL constructor stores ------------------------------------------------
    # The program calls FloatDataEncoding(...) - the prover executes the real __init__ (and NumericDataEncoding.__init__
    # behind super()) statement by statement on a fresh object - and then calls the stored parsing function through the
    # contract of whichever closure was stored. It discharges what the contract on the function VALUE `parse_func` (above)
    # assumes: the MIL closure is stored exactly for MIL-STD-1750A, the IEEE closure otherwise, with the struct format
    # '<' / '>' for the declared byte order followed by 'e' / 'f' / 'd' for 16 / 32 / 64 bits.
    Contract(
        target='ghost.c04_float_ctor',
        props=['C04', 'C01'],
        params={'size_in_bits': 'int', 'encoding': 'str', 'byte_order': 'str', 'data': 'bytes'},
        returns='any',
        requires=['8 * len(data) == size_in_bits'],
        ensures={}, modifies=[],
        native={'gen': _gen_float_ctor, 'build': _build_float_ctor},
        # the constructor rejects only what the statement leaves out: spellings that are not XTCE float encodings,
        # MIL-STD-1750A at another size than 32, IEEE at another size than 16 / 32 / 64; DEC / IBM / TI are unsupported
        may_raise={'ValueError': (
            "not (encoding == 'IEEE754_1985' or encoding == 'IEEE754' or encoding == 'IEEE-754' or encoding == 'MILSTD_1750A' "
            "or encoding == 'MIL-1750A' or encoding == 'DEC' or encoding == 'IBM' or encoding == 'TI') or "
            "((encoding == 'MILSTD_1750A' or encoding == 'MIL-1750A') and size_in_bits != 32) or "
            "((encoding == 'IEEE754_1985' or encoding == 'IEEE754' or encoding == 'IEEE-754') and "
            "not (size_in_bits == 16 or size_in_bits == 32 or size_in_bits == 64))"),
            'NotImplementedError': "encoding == 'DEC' or encoding == 'IBM' or encoding == 'TI'"},
    ),
]
