"""Sidecar contracts for space_packet_parser/common.py"""
from pyvc.cdef import Contract

SCHEMA = {}

_BASE = {'IntParameter': 'int', 'FloatParameter': 'real', 'StrParameter': 'str', 'BinaryParameter': 'bytes',
         'BoolParameter': 'bool'}
_RAWS = ['none', 'int', 'real', 'bytes', 'str']


def _variants():
    out = {}
    for cname, base in _BASE.items():
        for raw in _RAWS:
            vty = base if base != 'bool' else 'bool'
            out[f"{cname}/raw={raw}"] = {
                'params': {'cls': ('clsref', 'common.' + cname), 'value': vty, 'raw_value': raw},
                'returns': ('pval', [cname]),
            }
    return out


def _gen_new(rng, tier, variant):
    """each value class x boundary values of its built-in type (0, -1, huge, 0.0, -0.0, inf, '', non-ASCII, b'')
    x raw in {None, 0, 0.0, '', b'', False, random}"""
    cname, rawk = variant.split('/raw=')
    vals = {'IntParameter': [0, 1, -1, 2 ** 70, -2 ** 70, 255], 'FloatParameter': [0.0, -0.0, 1.5, -3.25, 1e300, float('inf')],
            'StrParameter': ['', 'a', 'héllo', '0'], 'BinaryParameter': [b'', b'\x00', b'abc'],
            'BoolParameter': [True, False]}[cname]
    raws = {'none': [None], 'int': [0, 1, -5, 2 ** 65], 'real': [0.0, 2.5, -0.0], 'bytes': [b'', b'\x00\x01'],
            'str': ['', 'x']}[rawk]
    for v in vals:
        for r in raws:
            yield {'cls': cname, 'value': _enc(v), 'raw': _enc(r)}


def _enc(v):
    if isinstance(v, bytes):
        return {'b': v.hex()}
    if isinstance(v, float):
        return {'f': repr(v)}
    return v


def _dec(v):
    if isinstance(v, dict) and 'b' in v:
        return bytes.fromhex(v['b'])
    if isinstance(v, dict) and 'f' in v:
        return float(v['f'])
    return v


def _build_new(r):
    def make():
        import space_packet_parser.common as c
        return {'cls': getattr(c, r['cls']), 'value': _dec(r['value']), 'raw_value': _dec(r['raw'])}
    return {'make': make}


CONTRACTS = [
    Contract(
        target='common._Parameter.__new__',
        props=['C20', 'C04', 'C08', 'C07', 'C01'],
        params={},
        variants=_variants(),
        requires=[],
        ensures={
            # the result is the built-in value ...
            'value': 'result == value',
            # ... carrying the raw value; when none is given the raw value is the value itself, falsy or not
            'raw': 'result.raw_value == (value if raw_value is None else raw_value)',
        },
        modifies=[],
        native={'gen': _gen_new, 'build': _build_new},
    ),
]


# ---- bounded-only ghost programs for the CPython-object-model half of C20 ---------------------------------------------
def _gen_behaviour(rng, tier, variant):
    """every value class x {0, 1, -1, huge, NaN, inf, -0.0, '', non-ASCII, b'', ...} x raw in {None, 0, 0.0, False,
    '', b'', equal-but-differently-typed, random}"""
    nan, inf = float('nan'), float('inf')
    table = {
        'IntParameter': ([0, 1, -1, 2 ** 70, -2 ** 70, 255], [0, 5, 2.5, -1]),
        'FloatParameter': ([0.0, -0.0, 1.5, -3.25, 1e300, inf, -inf, nan, 3.0], [0, 0.5, -2, 3]),
        'StrParameter': (['', 'a', 'héllo', '0', 'zz'], ['', 'b', 'a']),
        'BinaryParameter': ([b'', b'\x00', b'abc', b'\xff\x00'], [b'', b'b']),
        'BoolParameter': ([True, False, 1, 0], [0, 1, True]),
    }
    raws = [None, 0, 0.0, False, '', b'', 3, 3.0, 1, True, -7, 'x', b'\x01']
    for cname, (vals, others) in table.items():
        for v in vals:
            for r in raws:
                yield {'cls': cname, 'value': _enc(v), 'raw': _enc(r), 'others': [_enc(o) for o in others]}


def _build_behaviour(r):
    def make():
        import space_packet_parser.common as c
        return {'cls': getattr(c, r['cls']), 'value': _dec(r['value']), 'raw_value': _dec(r['raw']),
                'others': [_dec(o) for o in r['others']]}
    return {'make': make}


def _gen_pktcopy(rng, tier, variant):
    """packets with 0..9 items of all five value classes (falsy raw values included), raw data of 0..12 bytes,
    every cursor position in {0, 1, 7, 8, 64, 8*len}"""
    kinds = ['IntParameter', 'FloatParameter', 'StrParameter', 'BinaryParameter', 'BoolParameter']
    samples = {'IntParameter': [(0, None), (5, 0), (-3, 2.5)], 'FloatParameter': [(0.0, 0), (2.5, 7), (3.0, 3)],
               'StrParameter': [('', b''), ('LBL', 0)], 'BinaryParameter': [(b'', None), (b'\x00\x01', None)],
               'BoolParameter': [(True, 1), (False, 0)]}
    for n in range(0, 10):
        for _ in range(6 if tier == 'quick' else 40):
            items = []
            for i in range(n):
                k = rng.choice(kinds)
                v, rw = rng.choice(samples[k])
                items.append([f"P{i}", k, _enc(v), _enc(rw)])
            ln = rng.randint(0, 12)
            raw = bytes(rng.getrandbits(8) for _ in range(ln))
            yield {'items': items, 'raw': raw.hex(), 'pos': rng.choice([0, 1, 7, 8, 64, 8 * ln])}


def _build_pktcopy(r):
    def make():
        import space_packet_parser.common as c
        items = [(n, getattr(c, k)(_dec(v), _dec(rw))) for n, k, v, rw in r['items']]
        return {'items': items, 'raw': bytes.fromhex(r['raw']), 'pos': r['pos']}
    return {'make': make}


CONTRACTS += [
    Contract(
        target='ghost.c20_value_behaviour', props=['C20'],
        params={}, requires=[], ensures={}, modifies=[],
        native_only='operator tables, hashing, formatting, copy/deepcopy/pickle are CPython object-model behaviour '
                    '(E10): bounded enumeration only',
        native={'gen': _gen_behaviour, 'build': _build_behaviour},
    ),
    Contract(
        target='ghost.c20_packet_copy', props=['C20'],
        params={}, requires=[], ensures={}, modifies=[],
        native_only='copy/deepcopy/pickle of dict and bytes subclasses is CPython object-model behaviour (E10): '
                    'bounded enumeration only',
        native={'gen': _gen_pktcopy, 'build': _build_pktcopy},
    ),
]
