"""Sidecar contracts for space_packet_parser/common.py"""
from pyvc.cdef import Contract

SCHEMA = {}

_BASE = {'IntParameter': 'int', 'FloatParameter': 'real', 'StrParameter': 'str', 'BinaryParameter': 'bytes',
         'BoolParameter': 'bool'}
_RAWS = ['none', 'int', 'real', 'bytes', 'str']


def _variants():
    out = {}
    for cname, base in _BASE.items():
        for raw in _RAWS:
            vty = base if base != 'bool' else 'bool'
            out[f"{cname}/raw={raw}"] = {
                'params': {'cls': ('clsref', 'common.' + cname), 'value': vty, 'raw_value': raw},
                'returns': ('pval', [cname]),
            }
    return out


def _gen_new(rng, tier, variant):
    """each value class x boundary values of its built-in type (0, -1, huge, 0.0, -0.0, inf, '', non-ASCII, b'')
    x raw in {None, 0, 0.0, '', b'', False, random}"""
    cname, rawk = variant.split('/raw=')
    vals = {'IntParameter': [0, 1, -1, 2 ** 70, -2 ** 70, 255], 'FloatParameter': [0.0, -0.0, 1.5, -3.25, 1e300, float('inf')],
            'StrParameter': ['', 'a', 'héllo', '0'], 'BinaryParameter': [b'', b'\x00', b'abc'],
            'BoolParameter': [True, False]}[cname]
    raws = {'none': [None], 'int': [0, 1, -5, 2 ** 65], 'real': [0.0, 2.5, -0.0], 'bytes': [b'', b'\x00\x01'],
            'str': ['', 'x']}[rawk]
    for v in vals:
        for r in raws:
            yield {'cls': cname, 'value': _enc(v), 'raw': _enc(r)}


def _enc(v):
    if isinstance(v, bytes):
        return {'b': v.hex()}
    if isinstance(v, float):
        return {'f': repr(v)}
    return v


def _dec(v):
    if isinstance(v, dict) and 'b' in v:
        return bytes.fromhex(v['b'])
    if isinstance(v, dict) and 'f' in v:
        return float(v['f'])
    return v


def _build_new(r):
    def make():
        import space_packet_parser.common as c
        return {'cls': getattr(c, r['cls']), 'value': _dec(r['value']), 'raw_value': _dec(r['raw'])}
    return {'make': make}


CONTRACTS = [
    Contract(
        target='common._Parameter.__new__',
        props=['C20', 'C04', 'C08', 'C07', 'C01'],
        params={},
        variants=_variants(),
        requires=[],
        ensures={
            # the result is the built-in value ...
            'value': 'result == value',
            # ... carrying the raw value; when none is given the raw value is the value itself, falsy or not
            'raw': 'result.raw_value == (value if raw_value is None else raw_value)',
        },
        modifies=[],
        native={'gen': _gen_new, 'build': _build_new},
    ),
]
