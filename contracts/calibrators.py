"""Sidecar contracts for space_packet_parser/xtce/calibrators.py and the value derivation in parameter_types.py (C08)."""
from pyvc.cdef import Contract, LoopSpec
import specs.refsem as R
from contracts.comparisons import _enc, _dec, mk_packet

SCHEMA = {}
NATIVE_ENV = {k: getattr(R, k) for k in dir(R) if not k.startswith('_')}

PENDING = ("contract evaluated by the bounded native stand-in only (exact-rational reference semantics in "
           "specs/refsem.py; rounding is not claimed: results are compared up to 1e-9 relative)")


def _gen_spline(rng, tier, variant):
    """point sets of 1..5 points with strictly increasing raw coordinates (given in shuffled order), order in {0, 1},
    both extrapolate flags; queries: every knot, both end points, midpoints, points outside on both sides"""
    for _ in range(250 if tier == 'quick' else 4000):
        n = rng.randint(2, 5)
        xs = sorted(rng.sample(range(-10, 30), n))
        pts = [[float(x), float(rng.randint(-20, 20)) + rng.choice([0.0, 0.5])] for x in xs]
        order = rng.choice([0, 1])
        ext = rng.choice([True, False])
        shuffled = pts[:]
        rng.shuffle(shuffled)
        queries = list(xs) + [xs[0] - 1, xs[-1] + 2, xs[0] - 0.5, xs[-1] + 0.25] + \
            [(a + b) / 2 for a, b in zip(xs, xs[1:])] + [xs[0] + 0.25]
        for q in queries:
            yield {'pts': shuffled, 'order': order, 'ext': ext, 'q': _enc(float(q)) if rng.random() < 0.5 else _enc(q)}


def _build_spline(r):
    def make():
        from space_packet_parser.xtce.calibrators import SplineCalibrator, SplinePoint
        c = SplineCalibrator([SplinePoint(raw=a, calibrated=b) for a, b in r['pts']], order=r['order'],
                             extrapolate=r['ext'])
        return {'self': c, 'uncalibrated_value': _dec(r['q'])}
    return {'make': make}


def _gen_poly(rng, tier, variant):
    """polynomials with 0..5 terms (exponents 0..4, possibly repeated), integer and half-integer coefficients,
    raw inputs integers and floats incl. 0 and negatives"""
    for _ in range(400 if tier == 'quick' else 5000):
        terms = [[rng.choice([0.0, 1.0, -2.5, 0.5, 3.0, rng.randint(-5, 5) + 0.25]), rng.randint(0, 4)]
                 for _ in range(rng.randint(0, 5))]
        yield {'terms': terms, 'x': _enc(rng.choice([0, 1, -1, 2, 255, -7, 0.5, -1.25, 65535]))}


def _build_poly(r):
    def make():
        from space_packet_parser.xtce.calibrators import PolynomialCalibrator, PolynomialCoefficient
        c = PolynomialCalibrator([PolynomialCoefficient(coefficient=a, exponent=n) for a, n in r['terms']])
        return {'self': c, 'uncalibrated_value': _dec(r['x'])}
    return {'make': make}


CONTRACTS = [
    Contract(
        target='xtce.calibrators.SplineCalibrator.calibrate',
        props=['C08', 'C01'],
        params={}, native_only=PENDING,
        requires=['len(self.points) >= 2'],
        ensures={'value': 'close(result, ref_spline(self.points, self.order, self.extrapolate, uncalibrated_value))'},
        raises={'CalibrationError': ("outcome(ref_spline(self.points, self.order, self.extrapolate, uncalibrated_value))"
                                     " == 'CalibrationError'")},
        modifies=[],
        native={'gen': _gen_spline, 'build': _build_spline},
    ),
    Contract(
        target='xtce.calibrators.PolynomialCalibrator.calibrate',
        props=['C08', 'C01'],
        params={}, native_only=PENDING,
        requires=[],
        ensures={'value': 'close(result, ref_poly(self.coefficients, uncalibrated_value))'},
        modifies=[],
        native={'gen': _gen_poly, 'build': _build_poly},
    ),
]
