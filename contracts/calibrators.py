"""Sidecar contracts for space_packet_parser/xtce/calibrators.py and the value derivation in parameter_types.py (C08)."""
from pyvc.cdef import Contract, LoopSpec
import specs.refsem as R
from contracts.comparisons import _enc, _dec, mk_packet

SCHEMA = {
    'PolynomialCoefficient': {'coefficient': 'real', 'exponent': 'int'},
    'PolynomialCalibrator': {'coefficients': ('list', ('rec', 'PolynomialCoefficient'))},
    'SplinePoint': {'raw': 'real', 'calibrated': 'real'},
    'SplineCalibrator': {'points': ('list', ('rec', 'SplinePoint')), 'order': 'int', 'extrapolate': 'bool'},
    'ContextCalibrator': {'match_criteria': ('list', ('rec', ['Comparison', 'BooleanExpression'])),
                          'calibrator': ('rec', ['SplineCalibrator', 'PolynomialCalibrator'])},
}
NATIVE_ENV = {k: getattr(R, k) for k in dir(R) if not k.startswith('_')}

PENDING = ("contract evaluated by the bounded native stand-in only (exact-rational reference semantics in "
           "specs/refsem.py; rounding is not claimed: results are compared up to 1e-9 relative)")


def _gen_spline(rng, tier, variant):
    """point sets of 1..5 points with strictly increasing raw coordinates (given in shuffled order), order in {0, 1},
    both extrapolate flags; queries: every knot, both end points, midpoints, points outside on both sides"""
    for _ in range(250 if tier == 'quick' else 4000):
        n = rng.randint(2, 5)
        xs = sorted(rng.sample(range(-10, 30), n))
        pts = [[float(x), float(rng.randint(-20, 20)) + rng.choice([0.0, 0.5])] for x in xs]
        order = rng.choice([0, 1])
        ext = rng.choice([True, False])
        shuffled = pts[:]
        rng.shuffle(shuffled)
        queries = list(xs) + [xs[0] - 1, xs[-1] + 2, xs[0] - 0.5, xs[-1] + 0.25] + \
            [(a + b) / 2 for a, b in zip(xs, xs[1:])] + [xs[0] + 0.25]
        for q in queries:
            if variant == 'int' and q != int(q):
                continue
            yield {'pts': shuffled, 'order': order, 'ext': ext, 'q': (_enc(float(q)) if variant != 'int' else int(q))}


def _build_spline(r):
    def make():
        from space_packet_parser.xtce.calibrators import SplineCalibrator, SplinePoint
        c = SplineCalibrator([SplinePoint(raw=a, calibrated=b) for a, b in r['pts']], order=r['order'],
                             extrapolate=r['ext'])
        return {'self': c, 'uncalibrated_value': _dec(r['q'])}
    return {'make': make}


def _gen_poly(rng, tier, variant):
    """polynomials with 0..5 terms (exponents 0..4, possibly repeated), integer and half-integer coefficients,
    raw inputs integers and floats incl. 0 and negatives"""
    for _ in range(400 if tier == 'quick' else 5000):
        terms = [[rng.choice([0.0, 1.0, -2.5, 0.5, 3.0, rng.randint(-5, 5) + 0.25]), rng.randint(0, 4)]
                 for _ in range(rng.randint(0, 5))]
        yield {'terms': terms, 'x': _enc(rng.choice([0, 1, -1, 2, 255, -7, 0.5, -1.25, 65535]))}


def _build_poly(r):
    def make():
        from space_packet_parser.xtce.calibrators import PolynomialCalibrator, PolynomialCoefficient
        c = PolynomialCalibrator([PolynomialCoefficient(coefficient=a, exponent=n) for a, n in r['terms']])
        return {'self': c, 'uncalibrated_value': _dec(r['x'])}
    return {'make': make}


P_ = 'self.points'
SORTED = (f'forall(lambda i: forall(lambda j: at({P_}, i).raw < at({P_}, j).raw, i + 1, len({P_})), 0, len({P_}))')
FIRST = f'at({P_}, 0)'
LAST = f'at({P_}, len({P_}) - 1)'
Q = 'toreal(query_point)'
INSIDE = f'{FIRST}.raw <= {Q} and {Q} <= {LAST}.raw'


def _spline_variants():
    return {'int': {'params': {'query_point': 'int'}}, 'float': {'params': {'query_point': 'real'}}}


def _build_spline_q(r):
    def make():
        from space_packet_parser.xtce.calibrators import SplineCalibrator, SplinePoint
        c = SplineCalibrator([SplinePoint(raw=a, calibrated=b) for a, b in r['pts']], order=r['order'],
                             extrapolate=r['ext'])
        return {'self': c, 'query_point': _dec(r['q'])}
    return {'make': make}


CONTRACTS = [
    Contract(
        target='xtce.calibrators.SplineCalibrator._zero_order_spline_interp',
        props=['C08', 'C01'],
        params={'self': ('rec', 'SplineCalibrator')},
        variants=_spline_variants(),
        returns='real',
        # points are sorted by raw on construction; the property speaks of strictly increasing raw coordinates
        requires=[f'len({P_}) >= 1', SORTED],
        ensures={
            # step interpolation over the CLOSED range: the value of the last point not above q (the last knot included)
            'inside': (f'implies({INSIDE}, exists(lambda i: at({P_}, i).raw <= {Q} and '
                       f'(i == len({P_}) - 1 or {Q} < at({P_}, i + 1).raw) and result == at({P_}, i).calibrated, 0, len({P_})))'),
            'above': f'implies({Q} > {LAST}.raw, result == {LAST}.calibrated)',
            'below': f'implies({Q} < {FIRST}.raw, result == {FIRST}.calibrated)',
        },
        raises={'CalibrationError': f'not ({INSIDE}) and not self.extrapolate'},
        modifies=[],
        native={'gen': _gen_spline, 'build': _build_spline_q},
    ),
    Contract(
        target='xtce.calibrators.SplineCalibrator._first_order_spline_interp',
        props=['C08', 'C01'],
        params={'self': ('rec', 'SplineCalibrator')},
        variants=_spline_variants(),
        returns='real',
        requires=[f'len({P_}) >= 2', SORTED],
        ensures={
            # linear interpolation on the chord through the two points around q; the last knot gives its own value
            'inside': (f'implies({INSIDE}, exists(lambda i: at({P_}, i).raw <= {Q} and '
                       f'((i == len({P_}) - 1 and result == at({P_}, i).calibrated) or '
                       f' (i < len({P_}) - 1 and {Q} < at({P_}, i + 1).raw and '
                       f'  result == chord(at({P_}, i), at({P_}, i + 1), {Q}))), 0, len({P_})))', ['__proof__']),
            'above': (f'implies({Q} > {LAST}.raw, result == chord(at({P_}, len({P_}) - 2), {LAST}, {Q}))', ['__proof__']),
            'below': (f'implies({Q} < {FIRST}.raw, result == chord({FIRST}, at({P_}, 1), {Q}))', ['__proof__']),
            'value_exact': ('close(result, ref_spline(self.points, 1, self.extrapolate, query_point))', ['__native__']),
        },
        raises={'CalibrationError': f'not ({INSIDE}) and not self.extrapolate'},
        modifies=[],
        native={'gen': _gen_spline, 'build': _build_spline_q},
    ),
    Contract(
        target='xtce.calibrators.SplineCalibrator.calibrate',
        props=['C08', 'C01'],
        params={'self': ('rec', 'SplineCalibrator')},
        variants={'int': {'params': {'uncalibrated_value': 'int'}}, 'float': {'params': {'uncalibrated_value': 'real'}}},
        returns='real',
        requires=['spline_ok(self)'],
        ensures={
            # proved from the two interpolation contracts (dispatch on the order): the relation clients use
            'relation': ('spline_rel(self, toreal(uncalibrated_value), result)', ['__proof__']),
            'denotes': ('is_calibration(self, toreal(uncalibrated_value), result)', ['__proof__']),
            # checked natively against the exact-rational reference (closed range, every knot, extrapolation)
            'value_exact': ('close(result, ref_spline(self.points, self.order, self.extrapolate, uncalibrated_value))',
                            ['__native__']),
        },
        raises={'CalibrationError': ('not (' + INSIDE.replace('query_point', 'uncalibrated_value') + ') and not self.extrapolate')},
        reveal=['is_calibration'],
        modifies=[],
        native={'gen': _gen_spline, 'build': _build_spline},
    ),
    Contract(
        target='xtce.calibrators.PolynomialCalibrator.calibrate',
        props=['C08', 'C01'],
        params={'self': ('rec', 'PolynomialCalibrator')},
        variants={'int': {'params': {'uncalibrated_value': 'int'}}, 'float': {'params': {'uncalibrated_value': 'real'}}},
        returns='real',
        requires=[],
        ensures={
            # PROVED over the reals (S3): the polynomial sum a_i * x**n_i
            'value': ('result == poly_value(self.coefficients, uncalibrated_value)', ['__proof__']),
            'denotes': ('is_calibration(self, toreal(uncalibrated_value), result)', ['__proof__']),
            # checked natively against exact rational arithmetic (up to float rounding)
            'value_exact': ('close(result, ref_poly(self.coefficients, uncalibrated_value))', ['__native__']),
        },
        reveal=['is_calibration'],
        modifies=[],
        native={'gen': _gen_poly, 'build': _build_poly},
    ),
    Contract(
        target='xtce.calibrators.ContextCalibrator.calibrate',
        props=['C08', 'C01'],
        params={'self': ('rec', 'ContextCalibrator')},
        variants={'int': {'params': {'parsed_value': 'int'}}, 'float': {'params': {'parsed_value': 'real'}}},
        returns='real',
        requires=['cal_ok(self.calibrator)'],
        ensures={'relation': ('is_calibration(self.calibrator, toreal(parsed_value), result)', ['__proof__'])},
        raises={'CalibrationError': 'cal_raises(self.calibrator, toreal(parsed_value))'},
        modifies=[],
    ),
]
