"""Sidecar contracts for space_packet_parser/packets.py (the repository file is not annotated)."""
from pyvc.cdef import Contract, LoopSpec

SCHEMA = {
    'RawPacketData': {'__bytes__': 'bytes', 'pos': 'int'},
    'CCSDSPacket': {'raw_data': ('mobj', 'RawPacketData'), '__items__': 'odict'},
}

RPD = ('mobj', 'RawPacketData')


# ---- native generators (recipes are JSON-able; `build` turns a recipe into a runnable case) --------------------------
def _gen_bits(rng, tier, variant):
    """all (p, n) with p+n <= 8*len+9 for every buffer of small_buffers (len <= 2 exhaustively), random (p, n) on
    random buffers up to 12 bytes (quick) / 40 bytes (thorough), including reads past the end"""
    from contracts._gen import small_buffers
    for buf in small_buffers(rng, tier):
        L = 8 * len(buf)
        if len(buf) <= 2:
            for p in range(0, L + 2):
                for n in range(-9, L - p + 10):
                    yield {'buf': buf.hex(), 'p': p, 'n': n}
        else:
            for _ in range(40):
                p = rng.randint(0, L + 1)
                n = rng.choice([0, 1, 7, 8, 9, 16, 64, -1, -8, rng.randint(0, max(0, L - p)), rng.randint(-9, L + 8)])
                yield {'buf': buf.hex(), 'p': p, 'n': n}


def _build_extract(r):
    return {'args': {'data': bytes.fromhex(r['buf']), 'start_bit': r['p'], 'nbits': r['n']}}


def _build_read(r):
    def make():
        from space_packet_parser.packets import RawPacketData
        o = RawPacketData(bytes.fromhex(r['buf']))
        o.pos = r['p']
        return {'self': o, 'nbits': r['n']}
    return {'make': make}

def _gen_create(rng, tier, variant):
    """each header field over its boundary values {-1, 0, 1, max-1, max, max+1} with the others random in range,
    all pairwise boundary combinations, random in-range tuples; data lengths {0, 1, 2, 255, 256, 65535, 65536, 65537}
    and random"""
    import itertools
    maxes = [7, 1, 1, 2047, 3, 16383]
    names = ['version_number', 'type', 'secondary_header_flag', 'apid', 'sequence_flags', 'sequence_count']

    def rand_ok():
        return [rng.randint(0, m) for m in maxes]
    lens = [0, 1, 2, 255, 256, 65535, 65536, 65537]
    for i, m in enumerate(maxes):
        for b in (-1, 0, 1, m - 1, m, m + 1):
            vals = rand_ok()
            vals[i] = b
            yield {'f': vals, 'dlen': rng.choice([1, 2, 7, 300]), 'fill': rng.getrandbits(8)}
    for (i, mi), (j, mj) in itertools.combinations(list(enumerate(maxes)), 2):
        for bi in (0, mi):
            for bj in (0, mj):
                vals = rand_ok()
                vals[i], vals[j] = bi, bj
                yield {'f': vals, 'dlen': rng.choice([1, 3, 9]), 'fill': rng.getrandbits(8)}
    for ln in lens:
        yield {'f': rand_ok(), 'dlen': ln, 'fill': rng.getrandbits(8)}
    for _ in range(300 if tier == 'quick' else 5000):
        yield {'f': rand_ok(), 'dlen': rng.choice([1, 2, 5, 64, rng.randint(1, 2000)]), 'fill': rng.getrandbits(8)}


def _build_create(r):
    names = ['version_number', 'type', 'secondary_header_flag', 'apid', 'sequence_flags', 'sequence_count']
    data = bytes((r['fill'] + i * 7) % 256 for i in range(min(r['dlen'], 64))) + bytes(max(0, r['dlen'] - 64))
    a = {'data': data}
    a.update(dict(zip(names, r['f'])))
    return {'args': a}


def _gen_pkt(rng, tier, variant):
    """all 2**16 values of each of the three 16-bit header words (others random) in thorough tier, 3000 random headers
    in quick tier; short buffers of 0..7 bytes"""
    for ln in range(0, 8):
        yield {'buf': bytes(rng.getrandbits(8) for _ in range(ln)).hex()}
    if tier == 'thorough':
        for w in range(3):
            for v in range(65536):
                h = [rng.getrandbits(16) for _ in range(3)]
                h[w] = v
                yield {'buf': (b''.join(x.to_bytes(2, 'big') for x in h) + b'\x00').hex()}
    for _ in range(3000):
        ln = rng.randint(6, 20)
        yield {'buf': bytes(rng.getrandbits(8) for _ in range(ln)).hex()}


def _build_pkt(r):
    def make():
        from space_packet_parser.packets import RawPacketData
        return {'self': RawPacketData(bytes.fromhex(r['buf']))}
    return {'make': make}


def _accessor(name, p, n):
    return Contract(
        target=f'packets.RawPacketData.{name}',
        props=['C13', 'C12', 'C05', 'C01', 'C19'],
        params={'self': RPD},
        returns='int',
        requires=[],
        ensures={'value': f'implies({p + n} <= 8 * len(self), result == bits(self, {p}, {n}))',
                 'range': f'implies({p + n} <= 8 * len(self), 0 <= result and result < {2 ** n})',
                 # the same value read off the 48-bit header word (the form clients of the header layout use)
                 'word': f'implies(len(self) >= 6, result == low(shr(be(sl(self, 0, 6)), {48 - p - n}), {n}))'},
        hints=[f'bits_prefix(self, 6, {p}, {n})'],
        may_raise={'ValueError': f'{p + n} > 8 * len(self)'},
        modifies=[],
        native={'gen': _gen_pkt, 'build': _build_pkt,
                'call': f'packets.RawPacketData.{name}.func'},
    )


HEADER_FIELDS = [('version_number', 0, 3), ('type', 3, 1), ('secondary_header_flag', 4, 1), ('apid', 5, 11),
                 ('sequence_flags', 16, 2), ('sequence_count', 18, 14)]

IN_RANGE = ('0 <= version_number and version_number <= 7 and 0 <= type and type <= 1 and 0 <= secondary_header_flag '
            'and secondary_header_flag <= 1 and 0 <= apid and apid <= 2047 and 0 <= sequence_flags and '
            'sequence_flags <= 3 and 0 <= sequence_count and sequence_count <= 16383 and 1 <= len(data) and '
            'len(data) <= 65536')

CONTRACTS = [
    # ----------------------------------------------------------------------------------------------------------
    Contract(
        target='packets._extract_bits',
        props=['C03', 'C04', 'C07', 'C13', 'C02', 'C10', 'C14', 'C01'],
        params={'data': 'bytes', 'start_bit': 'int', 'nbits': 'int'},
        returns='int',
        requires=['start_bit >= 0', 'nbits >= 0'],
        ensures={
            # C03: the unsigned big-endian value of bits start_bit .. start_bit+nbits-1
            'value': 'implies(start_bit + nbits <= 8 * len(data), result == bits(data, start_bit, nbits))',
            # whatever is returned (also past the end of the buffer) is an nbits-bit unsigned value
            'range': '0 <= result and result < pow2(nbits)',
        },
        # inside the buffer nothing may be raised; past the end CPython may reject the negative shift count
        may_raise={'ValueError': 'start_bit + nbits > 8 * len(data)'},
        modifies=[],
        native={'gen': _gen_bits, 'build': _build_extract},
    ),
    # ----------------------------------------------------------------------------------------------------------
    Contract(
        target='packets.RawPacketData.read_as_int',
        props=['C03', 'C04', 'C07', 'C14', 'C01'],
        params={'self': RPD, 'nbits': 'int'},
        returns='int',
        requires=['self.pos >= 0'],
        ensures={
            'value': 'implies(old(self.pos) + nbits <= 8 * len(self), result == bits(self, old(self.pos), nbits))',
            'cursor': 'self.pos == old(self.pos) + nbits',
            'range': '0 <= result and result < pow2(nbits)',
            # C14: a read that returns normally never moves the cursor backwards
            'nonneg': ('nbits >= 0', ['C14']),
        },
        may_raise={'ValueError': 'nbits < 0 or self.pos + nbits > 8 * len(self)'},
        requires_for={'C03': ['nbits >= 0'], 'C04': ['nbits >= 0'], 'C07': ['nbits >= 0']},
        modifies=['self.pos'],
        native={'gen': _gen_bits, 'build': _build_read},
    ),
    # ----------------------------------------------------------------------------------------------------------
    Contract(
        target='packets.RawPacketData.read_as_bytes',
        props=['C03', 'C04', 'C07', 'C14', 'C01'],
        params={'self': RPD, 'nbits': 'int'},
        returns='bytes',
        requires=['self.pos >= 0'],
        ensures={
            'value': 'be(result) == bits(self, old(self.pos), nbits)',
            'length': 'len(result) == ceil8(nbits)',
            'cursor': 'self.pos == old(self.pos) + nbits',
            'nonneg': ('nbits >= 0', ['C14']),
        },
        raises={'ValueError': ('nbits < 0 or self.pos + nbits > 8 * len(self)')},
        requires_for={'C03': ['nbits >= 0'], 'C04': ['nbits >= 0'], 'C07': ['nbits >= 0']},
        modifies=['self.pos'],
        native={'gen': _gen_bits, 'build': _build_read},
    ),
    # ----------------------------------------------------------------------------------------------------------
    Contract(
        target='packets.create_ccsds_packet',
        props=['C13', 'C01'],
        params={'data': 'bytes', 'version_number': 'int', 'type': 'int', 'secondary_header_flag': 'int',
                'apid': 'int', 'sequence_flags': 'int', 'sequence_count': 'int'},
        returns=RPD,
        requires=[],
        ensures={
            'length': 'len(result) == 6 + len(data)',
            'data': 'sl(result, 6, len(result)) == data',
            # the CCSDS primary-header bit layout, as an integer polynomial of the fields
            'layout': ('be(sl(result, 0, 6)) == version_number * 2**45 + type * 2**44 + secondary_header_flag * 2**43 '
                       '+ apid * 2**32 + sequence_flags * 2**30 + sequence_count * 2**16 + (len(data) - 1)'),
            'cursor': 'result.pos == 0',
        },
        raises={'ValueError': f'not ({IN_RANGE})'},
        modifies=[],
        native={'gen': _gen_create, 'build': _build_create},
    ),
] + [_accessor(n, p, w) for n, p, w in HEADER_FIELDS] + [
    Contract(
        target='packets.RawPacketData.data_length',
        props=['C13', 'C01', 'C19'],
        params={'self': RPD}, returns='int',
        ensures={'value': 'result == len(self) - 7'},
        modifies=[],
        native={'gen': _gen_pkt, 'build': _build_pkt, 'call': 'packets.RawPacketData.data_length.func'},
    ),
    Contract(
        target='packets.RawPacketData.header_values',
        props=['C13', 'C19', 'C01'],
        params={'self': RPD}, returns=('tuple', ['int'] * 7),
        requires=['len(self) >= 6'],
        ensures={'value': ('result == (bits(self, 0, 3), bits(self, 3, 1), bits(self, 4, 1), bits(self, 5, 11), '
                           'bits(self, 16, 2), bits(self, 18, 14), len(self) - 7)')},
        modifies=[],
        native={'gen': _gen_pkt, 'build': _build_pkt, 'call': 'packets.RawPacketData.header_values.func'},
    ),
    # ---- lemma (ghost client program, contracts/ghost_programs.py) ---------------------------------------------------
    Contract(
        target='ghost.c13_roundtrip',
        props=['C13'],
        params={'data': 'bytes', 'version_number': 'int', 'type': 'int', 'secondary_header_flag': 'int',
                'apid': 'int', 'sequence_flags': 'int', 'sequence_count': 'int'},
        returns=RPD,
        requires=[IN_RANGE],
        ensures={},
        modifies=[],
        native={'gen': _gen_create, 'build': _build_create},
    ),
]
