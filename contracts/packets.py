"""Sidecar contracts for space_packet_parser/packets.py (the repository file is not annotated)."""
from pyvc.cdef import Contract, LoopSpec

SCHEMA = {
    'RawPacketData': {'__bytes__': 'bytes', 'pos': 'int'},
}

RPD = ('mobj', 'RawPacketData')


# ---- native generators (recipes are JSON-able; `build` turns a recipe into a runnable case) --------------------------
def _gen_bits(rng, tier, variant):
    """all (p, n) with p+n <= 8*len+9 for every buffer of small_buffers (len <= 2 exhaustively), random (p, n) on
    random buffers up to 12 bytes (quick) / 40 bytes (thorough), including reads past the end"""
    from contracts._gen import small_buffers
    for buf in small_buffers(rng, tier):
        L = 8 * len(buf)
        if len(buf) <= 2:
            for p in range(0, L + 2):
                for n in range(0, L - p + 10):
                    yield {'buf': buf.hex(), 'p': p, 'n': n}
        else:
            for _ in range(40):
                p = rng.randint(0, L + 1)
                n = rng.choice([0, 1, 7, 8, 9, 16, 64, rng.randint(0, max(0, L - p)), rng.randint(0, L + 8)])
                yield {'buf': buf.hex(), 'p': p, 'n': n}


def _build_extract(r):
    return {'args': {'data': bytes.fromhex(r['buf']), 'start_bit': r['p'], 'nbits': r['n']}}


def _build_read(r):
    def make():
        from space_packet_parser.packets import RawPacketData
        o = RawPacketData(bytes.fromhex(r['buf']))
        o.pos = r['p']
        return {'self': o, 'nbits': r['n']}
    return {'make': make}

CONTRACTS = [
    # ----------------------------------------------------------------------------------------------------------
    Contract(
        target='packets._extract_bits',
        props=['C03', 'C04', 'C07', 'C13', 'C02', 'C10', 'C14', 'C01'],
        params={'data': 'bytes', 'start_bit': 'int', 'nbits': 'int'},
        returns='int',
        requires=['start_bit >= 0', 'nbits >= 0'],
        ensures={
            # C03: the unsigned big-endian value of bits start_bit .. start_bit+nbits-1
            'value': 'implies(start_bit + nbits <= 8 * len(data), result == bits(data, start_bit, nbits))',
        },
        # inside the buffer nothing may be raised; past the end CPython may reject the negative shift count
        may_raise={'ValueError': 'start_bit + nbits > 8 * len(data)'},
        modifies=[],
        native={'gen': _gen_bits, 'build': _build_extract},
    ),
    # ----------------------------------------------------------------------------------------------------------
    Contract(
        target='packets.RawPacketData.read_as_int',
        props=['C03', 'C04', 'C07', 'C14', 'C01'],
        params={'self': RPD, 'nbits': 'int'},
        returns='int',
        requires=['self.pos >= 0', 'nbits >= 0'],
        ensures={
            'value': 'implies(old(self.pos) + nbits <= 8 * len(self), result == bits(self, old(self.pos), nbits))',
            'cursor': 'self.pos == old(self.pos) + nbits',
        },
        may_raise={'ValueError': 'self.pos + nbits > 8 * len(self)'},
        modifies=['self.pos'],
        native={'gen': _gen_bits, 'build': _build_read},
    ),
    # ----------------------------------------------------------------------------------------------------------
    Contract(
        target='packets.RawPacketData.read_as_bytes',
        props=['C03', 'C04', 'C07', 'C14', 'C01'],
        params={'self': RPD, 'nbits': 'int'},
        returns='bytes',
        requires=['self.pos >= 0', 'nbits >= 0'],
        ensures={
            'value': 'be(result) == bits(self, old(self.pos), nbits)',
            'length': 'len(result) == ceil8(nbits)',
            'cursor': 'self.pos == old(self.pos) + nbits',
        },
        raises={'ValueError': 'self.pos + nbits > 8 * len(self)'},
        modifies=['self.pos'],
        native={'gen': _gen_bits, 'build': _build_read},
    ),
]
