"""Sidecar contracts for space_packet_parser/packets.py (the repository file is not annotated)."""
from pyvc.cdef import Contract, LoopSpec

SCHEMA = {
    'RawPacketData': {'__bytes__': 'bytes', 'pos': 'int'},
    'CCSDSPacket': {'raw_data': ('mobj', 'RawPacketData'), '__items__': 'odict'},
}

RPD = ('mobj', 'RawPacketData')


# ---- native generators (recipes are JSON-able; `build` turns a recipe into a runnable case) --------------------------
def _gen_bits(rng, tier, variant):
    """all (p, n) with p+n <= 8*len+9 for every buffer of small_buffers (len <= 2 exhaustively), random (p, n) on
    random buffers up to 12 bytes (quick) / 40 bytes (thorough), including reads past the end"""
    from contracts._gen import small_buffers
    for buf in small_buffers(rng, tier):
        L = 8 * len(buf)
        if len(buf) <= 2:
            for p in range(0, L + 2):
                for n in range(-9, L - p + 10):
                    yield {'buf': buf.hex(), 'p': p, 'n': n}
        else:
            for _ in range(40):
                p = rng.randint(0, L + 1)
                n = rng.choice([0, 1, 7, 8, 9, 16, 64, -1, -8, rng.randint(0, max(0, L - p)), rng.randint(-9, L + 8)])
                yield {'buf': buf.hex(), 'p': p, 'n': n}


def _build_extract(r):
    return {'args': {'data': bytes.fromhex(r['buf']), 'start_bit': r['p'], 'nbits': r['n']}}


def _build_read(r):
    def make():
        from space_packet_parser.packets import RawPacketData
        o = RawPacketData(bytes.fromhex(r['buf']))
        o.pos = r['p']
        return {'self': o, 'nbits': r['n']}
    return {'make': make}

def _gen_create(rng, tier, variant):
    """each header field over its boundary values {-1, 0, 1, max-1, max, max+1} with the others random in range,
    all pairwise boundary combinations, random in-range tuples; data lengths {0, 1, 2, 255, 256, 65535, 65536, 65537}
    and random"""
    import itertools
    maxes = [7, 1, 1, 2047, 3, 16383]
    names = ['version_number', 'type', 'secondary_header_flag', 'apid', 'sequence_flags', 'sequence_count']

    def rand_ok():
        return [rng.randint(0, m) for m in maxes]
    lens = [0, 1, 2, 255, 256, 65535, 65536, 65537]
    for i, m in enumerate(maxes):
        for b in (-1, 0, 1, m - 1, m, m + 1):
            vals = rand_ok()
            vals[i] = b
            yield {'f': vals, 'dlen': rng.choice([1, 2, 7, 300]), 'fill': rng.getrandbits(8)}
    for (i, mi), (j, mj) in itertools.combinations(list(enumerate(maxes)), 2):
        for bi in (0, mi):
            for bj in (0, mj):
                vals = rand_ok()
                vals[i], vals[j] = bi, bj
                yield {'f': vals, 'dlen': rng.choice([1, 3, 9]), 'fill': rng.getrandbits(8)}
    for ln in lens:
        yield {'f': rand_ok(), 'dlen': ln, 'fill': rng.getrandbits(8)}
    for _ in range(300 if tier == 'quick' else 5000):
        yield {'f': rand_ok(), 'dlen': rng.choice([1, 2, 5, 64, rng.randint(1, 2000)]), 'fill': rng.getrandbits(8)}


def _build_create(r):
    names = ['version_number', 'type', 'secondary_header_flag', 'apid', 'sequence_flags', 'sequence_count']
    data = bytes((r['fill'] + i * 7) % 256 for i in range(min(r['dlen'], 64))) + bytes(max(0, r['dlen'] - 64))
    a = {'data': data}
    a.update(dict(zip(names, r['f'])))
    return {'args': a}


def _gen_pkt(rng, tier, variant):
    """all 2**16 values of each of the three 16-bit header words (others random) in thorough tier, 3000 random headers
    in quick tier; short buffers of 0..7 bytes"""
    for ln in range(0, 8):
        yield {'buf': bytes(rng.getrandbits(8) for _ in range(ln)).hex()}
    if tier == 'thorough':
        for w in range(3):
            for v in range(65536):
                h = [rng.getrandbits(16) for _ in range(3)]
                h[w] = v
                yield {'buf': (b''.join(x.to_bytes(2, 'big') for x in h) + b'\x00').hex()}
    for _ in range(3000):
        ln = rng.randint(6, 20)
        yield {'buf': bytes(rng.getrandbits(8) for _ in range(ln)).hex()}


def _build_pkt(r):
    def make():
        from space_packet_parser.packets import RawPacketData
        return {'self': RawPacketData(bytes.fromhex(r['buf']))}
    return {'make': make}


def _accessor(name, p, n):
    return Contract(
        target=f'packets.RawPacketData.{name}',
        props=['C13', 'C12', 'C05', 'C01', 'C19'],
        params={'self': RPD},
        returns='int',
        requires=[],
        ensures={'value': f'implies({p + n} <= 8 * len(self), result == bits(self, {p}, {n}))',
                 'range': f'implies({p + n} <= 8 * len(self), 0 <= result and result < {2 ** n})',
                 # the same value read off the 48-bit header word (the form clients of the header layout use)
                 'word': f'implies(len(self) >= 6, result == low(shr(be(sl(self, 0, 6)), {48 - p - n}), {n}))'},
        hints=[f'bits_prefix(self, 6, {p}, {n})', f'bits_range(self, {p}, {n})'],
        may_raise={'ValueError': f'{p + n} > 8 * len(self)'},
        modifies=[],
        # a cached property of an immutable bytes object (E11): the same value on every read of the same bytes
        pure=True,
        native={'gen': _gen_pkt, 'build': _build_pkt,
                'call': f'packets.RawPacketData.{name}.func'},
    )


HEADER_FIELDS = [('version_number', 0, 3), ('type', 3, 1), ('secondary_header_flag', 4, 1), ('apid', 5, 11),
                 ('sequence_flags', 16, 2), ('sequence_count', 18, 14)]

IN_RANGE = ('0 <= version_number and version_number <= 7 and 0 <= type and type <= 1 and 0 <= secondary_header_flag '
            'and secondary_header_flag <= 1 and 0 <= apid and apid <= 2047 and 0 <= sequence_flags and '
            'sequence_flags <= 3 and 0 <= sequence_count and sequence_count <= 16383 and 1 <= len(data) and '
            'len(data) <= 65536')

def _gen_streams(rng, tier, variant):
    """streams of 0..4 packets (data lengths incl. 1, 255..257, 512, 1024) with prefix k in {0,1,4,9}, delivered as
    bytes / file / socket with read sizes {None,1,2,3,5,6,7,8,13,64,4096} and random fragmentations; every stream also
    cut at every byte offset (producer dying there) for short streams; plus arbitrary byte strings of 0..40 bytes"""
    from contracts._gen import make_packet
    kind = variant
    rsizes = [None, 1, 2, 3, 5, 6, 7, 8, 13, 64, 4096] + ([-1] if kind == 'file' else [])
    nstreams = 150 if tier == "quick" else 1500
    for si in range(nstreams):
        k = rng.choice([0, 0, 1, 4, 9])
        n = rng.randint(0, 4)
        pk = [make_packet(rng, dlen=rng.choice([1, 2, 3, 8, 20, 256, 512]) if si % 3 else None) for _ in range(n)]
        T = b''.join(bytes(rng.getrandbits(8) for _ in range(k)) + p for p in pk)
        cuts = [len(T)] + ([c for c in range(len(T))] if len(T) <= 60 else [rng.randint(0, len(T)) for _ in range(12)])
        for cut in cuts:
            r = rng.choice(rsizes)
            frag = [] if rng.random() < 0.4 else [rng.randint(1, 9) for _ in range(rng.randint(1, 4))]
            # the progress display is on for one case in five (and for every empty / header-only input of a stream)
            yield {'kind': kind, 'T': T[:cut].hex(), 'k': k, 'r': r, 'frag': frag,
                   'prog': rng.random() < 0.2 or (cut <= 6 and rng.random() < 0.5)}
    for _ in range(60 if tier == 'quick' else 600):
        ln = rng.randint(0, 40)
        yield {'kind': kind, 'T': bytes(rng.getrandbits(8) for _ in range(ln)).hex(), 'k': rng.choice([0, 2]),
               'r': rng.choice(rsizes), 'frag': [], 'prog': rng.random() < 0.3}
    if tier == 'thorough':
        # beyond the 20 MB buffer-trim threshold (twice)
        yield {'kind': kind, 'T': None, 'big': 650, 'k': 0, 'r': 1 << 20 if kind != 'bytes' else None, 'frag': []}


def _gen_wellformed(rng, tier, variant):
    """well-formed streams of N = 0..5 packets with prefix k in {0, 1, 4, 9}; N stated correctly"""
    from contracts._gen import make_packet
    for _ in range(150 if tier == 'quick' else 3000):
        k = rng.choice([0, 0, 1, 4, 9])
        n = rng.randint(0, 5)
        T = b''.join(bytes(rng.getrandbits(8) for _ in range(k)) + make_packet(rng) for _ in range(n))
        yield {'T': T.hex(), 'k': k, 'N': n}


def _build_wellformed(r):
    return {'args': {'binary_data': bytes.fromhex(r['T']), 'skip_header_bytes': r['k'], 'N': r['N']}}


def _build_stream(r):
    def make():
        from contracts._gen import build_source, make_packet
        import random
        if r.get('T') is None:
            rr = random.Random(5)
            T = b''.join(make_packet(rr, dlen=65536 if i % 7 else 3) for i in range(r['big']))
        else:
            T = bytes.fromhex(r['T'])
        a = {'binary_data': build_source(r['kind'], T, r['frag']), 'skip_header_bytes': r['k'],
             'show_progress': bool(r.get('prog', False))}
        a['buffer_read_size_bytes'] = r['r']
        return a
    return {'make': make, 'cap': 2000}


CONTRACTS = [
    # ----------------------------------------------------------------------------------------------------------
    Contract(
        target='packets._extract_bits',
        props=['C03', 'C04', 'C07', 'C13', 'C02', 'C10', 'C14', 'C01'],
        params={'data': 'bytes', 'start_bit': 'int', 'nbits': 'int'},
        returns='int',
        requires=['start_bit >= 0', 'nbits >= 0'],
        ensures={
            # C03: the unsigned big-endian value of bits start_bit .. start_bit+nbits-1
            'value': 'implies(start_bit + nbits <= 8 * len(data), result == bits(data, start_bit, nbits))',
            # whatever is returned (also past the end of the buffer) is an nbits-bit unsigned value
            'range': '0 <= result and result < pow2(nbits)',
        },
        # inside the buffer nothing may be raised; past the end CPython may reject the negative shift count
        may_raise={'ValueError': 'start_bit + nbits > 8 * len(data)'},
        reveal=['bits'],
        modifies=[],
        native={'gen': _gen_bits, 'build': _build_extract},
    ),
    # ----------------------------------------------------------------------------------------------------------
    Contract(
        target='packets.RawPacketData.read_as_int',
        props=['C03', 'C04', 'C07', 'C14', 'C01'],
        params={'self': RPD, 'nbits': 'int'},
        returns='int',
        requires=['self.pos >= 0'],
        ensures={
            'value': 'implies(old(self.pos) + nbits <= 8 * len(self), result == bits(self, old(self.pos), nbits))',
            'cursor': 'self.pos == old(self.pos) + nbits',
            'range': '0 <= result and result < pow2(nbits)',
            # C14: a read that returns normally never moves the cursor backwards
            'nonneg': ('nbits >= 0', ['C14']),
        },
        may_raise={'ValueError': 'nbits < 0 or self.pos + nbits > 8 * len(self)'},
        requires_for={'C03': ['nbits >= 0'], 'C04': ['nbits >= 0'], 'C07': ['nbits >= 0']},
        modifies=['self.pos'],
        native={'gen': _gen_bits, 'build': _build_read},
    ),
    # ----------------------------------------------------------------------------------------------------------
    Contract(
        target='packets.RawPacketData.read_as_bytes',
        props=['C03', 'C04', 'C07', 'C14', 'C01'],
        params={'self': RPD, 'nbits': 'int'},
        returns='bytes',
        requires=['self.pos >= 0'],
        ensures={
            'value': 'be(result) == bits(self, old(self.pos), nbits)',
            'length': 'len(result) == ceil8(nbits)',
            'cursor': 'self.pos == old(self.pos) + nbits',
            'nonneg': ('nbits >= 0', ['C14']),
        },
        raises={'ValueError': ('nbits < 0 or self.pos + nbits > 8 * len(self)')},
        reveal=['bits'],
        requires_for={'C03': ['nbits >= 0'], 'C04': ['nbits >= 0'], 'C07': ['nbits >= 0']},
        modifies=['self.pos'],
        native={'gen': _gen_bits, 'build': _build_read},
    ),
    # ----------------------------------------------------------------------------------------------------------
    Contract(
        target='packets.create_ccsds_packet',
        props=['C13', 'C01'],
        params={'data': 'bytes', 'version_number': 'int', 'type': 'int', 'secondary_header_flag': 'int',
                'apid': 'int', 'sequence_flags': 'int', 'sequence_count': 'int'},
        returns=RPD,
        requires=[],
        ensures={
            'length': 'len(result) == 6 + len(data)',
            'data': 'sl(result, 6, len(result)) == data',
            # the CCSDS primary-header bit layout, as an integer polynomial of the fields
            'layout': ('be(sl(result, 0, 6)) == version_number * 2**45 + type * 2**44 + secondary_header_flag * 2**43 '
                       '+ apid * 2**32 + sequence_flags * 2**30 + sequence_count * 2**16 + (len(data) - 1)'),
            'cursor': 'result.pos == 0',
        },
        raises={'ValueError': f'not ({IN_RANGE})'},
        modifies=[],
        native={'gen': _gen_create, 'build': _build_create},
    ),
] + [_accessor(n, p, w) for n, p, w in HEADER_FIELDS] + [
    Contract(
        target='packets.RawPacketData.data_length',
        props=['C13', 'C01', 'C19'],
        params={'self': RPD}, returns='int',
        ensures={'value': 'result == len(self) - 7'},
        modifies=[],
        native={'gen': _gen_pkt, 'build': _build_pkt, 'call': 'packets.RawPacketData.data_length.func'},
    ),
    Contract(
        target='packets.RawPacketData.header_values',
        props=['C13', 'C19', 'C01'],
        params={'self': RPD}, returns=('tuple', ['int'] * 7),
        requires=['len(self) >= 6'],
        ensures={'value': ('result == (bits(self, 0, 3), bits(self, 3, 1), bits(self, 4, 1), bits(self, 5, 11), '
                           'bits(self, 16, 2), bits(self, 18, 14), len(self) - 7)')},
        modifies=[],
        native={'gen': _gen_pkt, 'build': _build_pkt, 'call': 'packets.RawPacketData.header_values.func'},
    ),
    # ---- lemma (ghost client program, contracts/ghost_programs.py) ---------------------------------------------------
    Contract(
        target='ghost.c13_roundtrip',
        props=['C13'],
        params={'data': 'bytes', 'version_number': 'int', 'type': 'int', 'secondary_header_flag': 'int',
                'apid': 'int', 'sequence_flags': 'int', 'sequence_count': 'int'},
        returns=RPD,
        requires=[IN_RANGE],
        ensures={},
        modifies=[],
        native={'gen': _gen_create, 'build': _build_create},
    ),
    # ----------------------------------------------------------------------------------------------------------
    # the progress display of the framer (show_progress=True): must never let an exception escape (C10), whatever the
    # byte / packet counts and whether or not the total is known (a socket has none; an empty source has total 0)
    Contract(
        target='packets._print_progress',
        props=['C10', 'C02', 'C19', 'C01'],
        params={'current_bytes': 'int', 'total_bytes': ('opt', 'int'), 'current_packets': 'int', 'start_time_ns': 'int'},
        returns='none',
        requires=['current_bytes >= 0', 'current_packets >= 0',
                  'is_none(total_bytes) or (0 <= total_bytes and current_bytes <= total_bytes)'],
        ensures={}, raises={}, modifies=[],
    ),
    # ----------------------------------------------------------------------------------------------------------
    # the framer: one contract, verified once per source kind (S10); E1 is the assumed contract on the readers
    Contract(
        target='packets.ccsds_generator',
        props=['C02', 'C10', 'C13', 'C19', 'C11', 'C01'],
        params={'binary_data': 'bytes', 'buffer_read_size_bytes': ('opt', 'int'), 'show_progress': 'bool',
                'skip_header_bytes': 'int'},
        ghost={'yield_type': 'bytes', 'item_class': 'packets.RawPacketData', 'defs': {'k': 'skip_header_bytes', 'j': 'len(out)'}},
        variants={
            'file': {'params': {'binary_data': ('source', 'file')},
                     'requires': ['is_none(buffer_read_size_bytes) or buffer_read_size_bytes != 0'],
                     'ghost_defs': {'T': 'src_T(binary_data)', 'Rr': 'src_R(binary_data)'}},
            'socket': {'params': {'binary_data': ('source', 'socket')},
                       'requires': ['is_none(buffer_read_size_bytes) or buffer_read_size_bytes >= 1'],
                       'ghost_defs': {'T': 'src_T(binary_data)', 'Rr': 'src_R(binary_data)'}},
            'bytes': {'params': {'binary_data': 'bytes'},
                      'ghost_defs': {'T': 'binary_data', 'Rr': 'len(binary_data)'}},
        },
        requires=['skip_header_bytes >= 0'],
        hints=['fb_zero(T, k)'],
        loops={
            ('', 0): LoopSpec(
                invariants={
                    'cursor_in_buffer': '0 <= current_pos and current_pos <= len(read_buffer)',
                    'window': ('0 <= Rr - len(read_buffer) and Rr <= len(T) and '
                               'read_buffer == sl(T, Rr - len(read_buffer), Rr)'),
                    'at_boundary': '(Rr - len(read_buffer)) + current_pos == fb(T, k, len(out))',
                    'bytes_parsed': 'n_bytes_parsed == fb(T, k, len(out))',
                    'packets_parsed': 'n_packets_parsed == len(out)',
                    'yielded': ('forall(lambda i: at(out, i) == sl(T, fb(T, k, i) + k, fb(T, k, i + 1)) and '
                                'fb(T, k, i + 1) <= len(T) and fb(T, k, i) + k + 6 <= len(T), 0, len(out))'),
                    'yielded_complete': 'forall(lambda i: len(at(out, i)) >= 7, 0, len(out))',
                    'total_known': 'is_none(total_length_bytes) or total_length_bytes == len(T)',
                },
                decreases='len(T) - fb(T, k, len(out))',
                havoc_yielded=True, havoc_ghost=['binary_data.R'],
                hints=['fb_step(T, k, len(out))', 'fb(T, k, len(out)) >= 0',
                       # the 16-bit length field read from the buffered header is the one at that offset of the stream
                       'bits_slice(T, fb(T, k, len(out)) + k, fb(T, k, len(out)) + k + 6, 32, 16)',
                       # ... and it is the length field of the yielded packet itself
                       'bits_slice(T, fb(T, k, len(out)) + k, fb(T, k, len(out) + 1), 32, 16)'],
            ),
            ('', 1): LoopSpec(
                invariants={
                    'window': ('0 <= Rr - len(read_buffer) and Rr <= len(T) and '
                               'read_buffer == sl(T, Rr - len(read_buffer), Rr)'),
                    'at_boundary': '(Rr - len(read_buffer)) + current_pos == fb(T, k, len(out))',
                    'cursor_in_buffer': '0 <= current_pos and current_pos <= len(read_buffer)',
                },
                decreases='len(T) - Rr', havoc_ghost=['binary_data.R'],
            ),
            ('', 2): LoopSpec(
                invariants={
                    'window': ('0 <= Rr - len(read_buffer) and Rr <= len(T) and '
                               'read_buffer == sl(T, Rr - len(read_buffer), Rr)'),
                    'at_boundary': '(Rr - len(read_buffer)) + current_pos == fb(T, k, len(out)) + k',
                    'cursor_in_buffer': '0 <= current_pos and current_pos <= len(read_buffer)',
                },
                decreases='len(T) - Rr', havoc_ghost=['binary_data.R'],
            ),
        },
        yields={
            # C02: byte-identical, in order;  C10: complete, consecutive
            'value': 'item == sl(T, fb(T, k, len(out)) + k, fb(T, k, len(out) + 1))',
            'complete': 'len(item) == 7 + bits(item, 32, 16)',
            'inside': 'fb(T, k, len(out) + 1) <= len(T)',
        },
        final={
            # C10: the unconsumed remainder is shorter than one complete record
            'remainder': 'not complete(T, k, len(out))',
            # every yielded item is a consecutive, complete slice of the input
            'consecutive': ('forall(lambda i: at(out, i) == sl(T, fb(T, k, i) + k, fb(T, k, i + 1)) and '
                            'fb(T, k, i + 1) <= len(T), 0, len(out))'),
            # every item has a primary header and at least one byte of data (what clients of the items rely on)
            'items_complete': 'forall(lambda i: len(at(out, i)) >= 7, 0, len(out))',
        },
        raises={},
        modifies=[],
        native={'gen': _gen_streams, 'build': _build_stream},
    ),
    Contract(
        target='ghost.c02_exact',
        props=['C02', 'C13'],
        params={'binary_data': 'bytes', 'skip_header_bytes': 'int', 'N': 'int'},
        returns='any',
        requires=['skip_header_bytes >= 0', 'N >= 0',
                  # well-formed stream of N records
                  'forall(lambda i: complete(binary_data, skip_header_bytes, i), 0, N)',
                  'fb(binary_data, skip_header_bytes, N) == len(binary_data)'],
        hints=['fb_step(binary_data, skip_header_bytes, N)',
               'bits_range(binary_data, 8 * (fb(binary_data, skip_header_bytes, N) + skip_header_bytes) + 32, 16)'],
        ensures={}, modifies=[],
        native={'gen': _gen_wellformed, 'build': _build_wellformed},
    ),
    Contract(
        target='ghost.c13_reframe',
        props=['C13'],
        params={'data': 'bytes', 'version_number': 'int', 'type': 'int', 'secondary_header_flag': 'int',
                'apid': 'int', 'sequence_flags': 'int', 'sequence_count': 'int'},
        returns='any',
        requires=[IN_RANGE],
        ensures={}, modifies=[],
        native={'gen': _gen_create, 'build': _build_create},
    ),
]
