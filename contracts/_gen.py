"""Shared input generators for the native harness (small-scope enumeration + seeded random)."""
import itertools


def small_buffers(rng, tier):
    """Byte strings: all of length 0..1 over a few byte values, then random ones up to 12 (quick) / 40 bytes."""
    vals = [0x00, 0xFF, 0xA5, 0x80, 0x01]
    yield b''
    for v in vals:
        yield bytes([v])
    for a, b in itertools.product(vals[:4], repeat=2):
        yield bytes([a, b])
    n = 60 if tier == 'quick' else 600
    maxlen = 12 if tier == 'quick' else 40
    for _ in range(n):
        ln = rng.randint(0, maxlen)
        yield bytes(rng.getrandbits(8) for _ in range(ln))
