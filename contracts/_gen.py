"""Shared input generators for the native harness (small-scope enumeration + seeded random)."""
import itertools


def small_buffers(rng, tier):
    """Byte strings: all of length 0..1 over a few byte values, then random ones up to 12 (quick) / 40 bytes."""
    vals = [0x00, 0xFF, 0xA5, 0x80, 0x01]
    yield b''
    for v in vals:
        yield bytes([v])
    for a, b in itertools.product(vals[:4], repeat=2):
        yield bytes([a, b])
    n = 60 if tier == 'quick' else 600
    maxlen = 12 if tier == 'quick' else 40
    for _ in range(n):
        ln = rng.randint(0, maxlen)
        yield bytes(rng.getrandbits(8) for _ in range(ln))


# ---- packet streams and finite sources (E1) for the framer ------------------------------------------------------------
def make_packet(rng, dlen=None, apid=None, seqflags=None, seqcount=None, shf=0, fill=None):
    """a CCSDS packet built from the layout definition (NOT with the repository's constructor)"""
    dlen = dlen if dlen is not None else rng.choice([1, 1, 2, 3, 7, 8, 20, 255, 256, 257, 512, 1024])
    v, t = rng.randint(0, 7), rng.randint(0, 1)
    apid = rng.randint(0, 2047) if apid is None else apid
    f = rng.randint(0, 3) if seqflags is None else seqflags
    c = rng.randint(0, 16383) if seqcount is None else seqcount
    word = (v << 45) | (t << 44) | (shf << 43) | (apid << 32) | (f << 30) | (c << 16) | (dlen - 1)
    data = bytes(rng.getrandbits(8) for _ in range(min(dlen, 40))) + bytes(max(0, dlen - 40)) if fill is None else fill
    return word.to_bytes(6, 'big') + data


def build_source(kind, T, frag, r=None):
    """a bytes object, a file-like object or a socket that delivers T in the fragmentation `frag` (cyclic list of
    maximum chunk sizes; empty = as much as asked)"""
    import io
    import socket
    if kind == 'bytes':
        return T

    class FragFile(io.BytesIO):
        ghost_T = T

        def __init__(self):
            super().__init__(T)
            self._i = 0

        def read(self, n=-1):
            if frag and n is not None and n > 0:
                n = max(1, min(n, frag[self._i % len(frag)]))
                self._i += 1
            return super().read(n)

    class FragSocket(socket.socket):
        ghost_T = T

        def __init__(self):
            super().__init__()
            self._pos = 0
            self._i = 0

        def recv(self, n, *a):
            if n <= 0:
                raise ValueError("negative buffersize in recv")
            if frag:
                n = max(1, min(n, frag[self._i % len(frag)]))
                self._i += 1
            out = T[self._pos:self._pos + n]
            self._pos += len(out)
            return out

        @property
        def ghost_R(self):
            return self._pos
    return FragFile() if kind == 'file' else FragSocket()
