"""Sidecar contracts for space_packet_parser/xtce/definitions.py (C05, C11, C12, C14, decode half of C01)."""
from pyvc.cdef import Contract, LoopSpec
import specs.refsem as R

CRIT = ('rec', ['Comparison', 'BooleanExpression'])
SCHEMA = {
    'SequenceContainer': {'name': 'str', 'entry_list': ('list', ('rec', ['Parameter', 'SequenceContainer'])),
                          'restriction_criteria': ('list', CRIT), 'abstract': 'bool', 'inheritors': ('list', 'str'),
                          'base_container_name': ('opt', 'str')},
    'XtcePacketDefinition': {'containers': ('smap', 'SequenceContainer'), 'root_container_name': ('opt', 'str')},
    'Parameter': {'name': 'str', 'parameter_type': ('rec', ['IntegerParameterType', 'FloatParameterType',
                                                            'StringParameterType', 'BinaryParameterType',
                                                            'EnumeratedParameterType', 'BooleanParameterType',
                                                            'AbsoluteTimeParameterType', 'RelativeTimeParameterType'])},
}
PKT_VALUES = ('mobj', 'CCSDSPacket', {'__items__': ('odict', {'kinds': ['IntParameter', 'FloatParameter', 'StrParameter'],
                                                            'rawkinds': ['int', 'real', 'str']})})
NATIVE_ENV = {k: getattr(R, k) for k in dir(R) if not k.startswith('_')}
PENDING = ("contract evaluated by the bounded native stand-in only: the reference semantics (specs/refsem.py) walk the "
           "definition object graph; not yet translated by the symbolic front end")


def _gen_parse(rng, tier, variant):
    """random definitions (CCSDS header root, 2..4 children selected by Comparison / ComparisonList / BooleanExpression
    criteria incl. overlapping ranges, abstract and concrete dead ends, grandchildren on a decoded field, nested
    container references, all parameter kinds) x packets steering into every branch, dead end and ambiguity; the APID
    parameter is not always called PKT_APID"""
    from contracts._defgen import gen_definition, gen_packet, exact_packet, build_definition
    import warnings
    warnings.simplefilter('ignore')
    for _ in range(60 if tier == 'quick' else 800):
        d = gen_definition(rng, nested_criteria=True)
        for _ in range(12):
            yield {'def': d, 'pkt': gen_packet(rng, d).hex()}
        # packets cut to the consumed length (zero-width trailing entries, nothing left after the last field)
        defn = build_definition(d)
        for _ in range(6):
            yield {'def': d, 'pkt': exact_packet(rng, d, defn).hex()}


def _build_parse(r):
    def make():
        import warnings
        warnings.simplefilter('ignore')
        from contracts._defgen import build_definition
        from space_packet_parser.packets import CCSDSPacket
        return {'self': build_definition(r['def']), 'packet': CCSDSPacket(raw_data=bytes.fromhex(r['pkt']))}
    return {'make': make}


_REF = 'ref_parse_outcome(self, bytes(packet.raw_data))'


def _gen_stream(rng, tier, variant):
    for r in _gen_stream0(rng, tier, variant):
        if 'root_given' in (variant or ''):
            r['opts']['root_container_name'] = r['def']['root']
        if 'buffer_given' in (variant or ''):
            r['opts']['buffer_read_size_bytes'] = rng.choice([1, 5, 7, 64, 4096])
        if (variant or '').endswith('_source'):
            # a file object / a socket delivering the same bytes in some fragmentation
            r['source'] = [variant.split('_')[0], rng.choice([[], [1], [3, 1, 7], [64]])]
        yield r


def _gen_stream0(rng, tier, variant):
    """streams of 1..8 packets over 1..3 APIDs mixing recognizable, unrecognizable and wrong-length packets, all option
    combinations (parse_bad_pkts, yield_unrecognized_packet_errors, ccsds_headers_only); with segment combining:
    ALL histories over {FIRST, CONTINUATION, LAST, UNSEGMENTED} x 2 APIDs up to length 4 (quick) / 5 (thorough) with
    in-sequence counts, plus random longer histories with gaps, wrap-around at 16383 and secondary-header lengths 0/2"""
    import itertools
    from contracts._defgen import gen_definition, gen_packet
    # (a) plain streams
    from contracts._defgen import exact_packet, build_definition
    import warnings
    warnings.simplefilter('ignore')
    for _ in range(40 if tier == 'quick' else 500):
        d = gen_definition(rng)
        defn = build_definition(d)
        n = rng.randint(1, 8)
        pk = []
        for _ in range(n):
            bl = rng.choice([None, None, None, rng.randint(1, 6), 60])
            if rng.random() < 0.5:
                # exactly consumed, or 1..7 bits left over when the consumed width is not a whole number of bytes
                pk.append(exact_packet(rng, d, defn).hex())
            else:
                pk.append(gen_packet(rng, d, body_len=bl).hex())
        yield {'def': d, 'pkts': pk, 'opts': {'parse_bad_pkts': rng.choice([True, False]),
                                              'yield_unrecognized_packet_errors': rng.choice([True, False]),
                                              'ccsds_headers_only': rng.random() < 0.15}}
    # (a2) one APID whose packets are recognizable, unrecognizable (TYPE bit) or ambiguous (flag bit) in turn: an earlier
    # packet of an APID never decides how a later one is treated
    for _ in range(60 if tier == 'quick' else 600):
        d = gen_definition(rng, styles=rng.choice([['eq+type', 'eq'], ['eq0', 'flag'], ['eq+type', 'flag'], ['eq0', 'flag', 'eq']]))
        defn = build_definition(d)
        a = d['apids'][0]
        pk = [(exact_packet(rng, d, defn, apid=a) if rng.random() < 0.6 else gen_packet(rng, d, apid=a)).hex()
              for _ in range(rng.randint(2, 6))]
        yield {'def': d, 'pkts': pk, 'opts': {'parse_bad_pkts': rng.choice([True, False]),
                                              'yield_unrecognized_packet_errors': rng.choice([True, False, False])}}
    # (b) segmentation histories on a header-only definition (so that the combined raw bytes are what is compared)
    d0 = {'ptypes': [], 'params': [], 'containers': [], 'root': 'CCSDSPacket', 'apids': [5, 9], 'apid_name': 'PKT_APID'}
    dh = gen_definition(rng, rich=False)
    dh['containers'] = dh['containers'][:1]
    dh['containers'][0]['abstract'] = False
    dh['apids'] = [5, 9]
    maxlen = 4 if tier == 'quick' else 5
    for ln in range(1, maxlen + 1):
        for hist in itertools.product([(f, a) for f in (1, 0, 2, 3) for a in (5, 9)], repeat=ln):
            if tier == 'quick' and ln == 4 and rng.random() < 0.85:
                continue
            cnt = {5: rng.choice([0, 16382, 100]), 9: 7}
            pk = []
            for f, a in hist:
                pk.append(gen_packet(rng, dh, body_len=rng.randint(3, 5), apid=a, seqflags=f, seqcount=cnt[a] % 16384).hex())
                cnt[a] += 1
            yield {'def': dh, 'pkts': pk, 'opts': {'combine_segmented_packets': True,
                                                   'secondary_header_bytes': rng.choice([0, 2])}}
    for counts in ([10, 12, 11, 13], [5, 5, 7], [16382, 0, 16383, 1], [3, 4, 6], [3, 5, 4], [7, 8, 9], [16383, 0, 1],
                   [16383, 5], [16383, 1], [16382, 16383, 1], [16383, 0], [16383, 16383], [0, 1], [0, 0], [16382, 16383, 0, 1]):
        for apid in (5, 9):
            flags = [1] + [0] * (len(counts) - 2) + [2]
            pk = [gen_packet(rng, dh, body_len=rng.randint(3, 5), apid=apid, seqflags=f, seqcount=c).hex()
                  for f, c in zip(flags, counts)]
            yield {'def': dh, 'pkts': pk, 'opts': {'combine_segmented_packets': True, 'secondary_header_bytes': rng.choice([0, 2])}}
    # later segments whose data field is exactly the secondary header (they contribute no bytes), or one byte more
    for sec in (1, 2, 3):
        for extra in ((0, 0), (0, 1), (1, 0), (2, 2)):
            for start in (7, 16382):
                lens = [sec + 2, sec + extra[0], sec + extra[1]]
                if min(lens) < 1:
                    continue
                pk = [gen_packet(rng, dh, body_len=bl, apid=5, seqflags=f, seqcount=(start + i) % 16384).hex()
                      for i, (f, bl) in enumerate(zip((1, 0, 2), lens))]
                yield {'def': dh, 'pkts': pk, 'opts': {'combine_segmented_packets': True, 'secondary_header_bytes': sec}}
    for _ in range(150 if tier == 'quick' else 3000):
        ln = rng.randint(3, 9)
        cnt = {5: rng.choice([0, 16380]), 9: 3}
        pk = []
        for _ in range(ln):
            a = rng.choice([5, 5, 9])
            f = rng.choice([1, 0, 0, 2, 2, 3])
            if rng.random() < 0.15:
                cnt[a] += rng.choice([1, 2, -1])       # sequence gap / repeat
            pk.append(gen_packet(rng, dh, body_len=rng.randint(3, 5), apid=a, seqflags=f, seqcount=cnt[a] % 16384).hex())
            cnt[a] += 1
        yield {'def': dh, 'pkts': pk, 'opts': {'combine_segmented_packets': True, 'secondary_header_bytes': rng.choice([0, 2])}}


_gen_stream.__doc__ = _gen_stream0.__doc__ + '; the optional root container name / buffer size arguments per variant'


def _drain(fn, args):
    import warnings
    items, raised = [], None
    with warnings.catch_warnings(record=True) as w:
        warnings.simplefilter('always')
        try:
            for it in fn(args['self'], args['binary_data'], **args['opts']):
                items.append(it)
                if len(items) > 500:
                    raised = 'NonTermination'
                    break
        except Exception as e:   # noqa
            raised = type(e).__name__
    return {'items': items, 'warnings': [str(x.message) for x in w], 'raised': raised}


def _build_stream(r):
    def make():
        from contracts._defgen import build_definition
        raws = [bytes.fromhex(p) for p in r['pkts']]
        data = b''.join(raws)
        if r.get('source'):
            from contracts._gen import build_source
            data = build_source(r['source'][0], data, r['source'][1])
        return {'self': build_definition(r['def']), 'binary_data': data, 'opts': dict(r['opts']),
                'raws': raws}
    return {'make': make, 'invoke': _drain}


_SREF = ("ref_stream(self, raws, headers_only=opts.get('ccsds_headers_only', False), "
         "combine=opts.get('combine_segmented_packets', False), sec=opts.get('secondary_header_bytes', 0), "
         "yield_errors=opts.get('yield_unrecognized_packet_errors', False), parse_bad=opts.get('parse_bad_pkts', True))")

M = 'self.containers'
RPD_ = ('bobj', 'packets.RawPacketData')
HDRLEN = '(6 + secondary_header_bytes)'
PROOF = ['__proof__']
G_, G0_ = '_segmented_packets', 'pre__segmented_packets'
A_, F_ = 'bits(raw_packet_data, 5, 11)', 'bits(raw_packet_data, 16, 2)'
ALONE = f'(not combine_segmented_packets or {F_} == 3)'
SEG = '(not ccsds_headers_only and combine_segmented_packets)'
GROUP = f'append({G0_}[{A_}], raw_packet_data)'
GROUPS = ('mdict', 'int', ('list', RPD_))    # open segment groups by APID
CUR = 'current_container'
NV = f'nvalid({CUR}, {M}, packet, len({CUR}.inheritors))'

def _ptype_requires():
    """the preconditions of ParameterType.parse_value's variants, each under the condition that selects the variant, read
    through self.parameter_type"""
    import re
    from contracts import ptypes as PT
    con = [c for c in PT.CONTRACTS if c.target == 'xtce.parameter_types.ParameterType.parse_value'][0]
    out = [("cls_is(self.parameter_type, 'IntegerParameterType') or cls_is(self.parameter_type, 'FloatParameterType') or "
            "cls_is(self.parameter_type, 'StringParameterType') or cls_is(self.parameter_type, 'BinaryParameterType')",
            ['__proof__'])]
    for vn, v in con.variants.items():
        sel = re.sub(r'\bself\b', 'self.parameter_type', v['select'])
        for r in v['requires']:
            expr = r[0] if isinstance(r, tuple) else r
            out.append((f"implies({sel}, {re.sub(chr(92) + 'bself' + chr(92) + 'b', 'self.parameter_type', expr)})", ['__proof__']))
    return out


DECODE_ERRORS = ('ValueError', 'KeyError', 'ComparisonError', 'CalibrationError', 'UnicodeDecodeError', 'TypeError',
                 'OverflowError')

CONTRACTS = [
    Contract(
        target='xtce.parameters.Parameter.parse',
        props=['C05', 'C14', 'C11', 'C01'],
        params={'self': ('rec', 'Parameter'), 'packet': PKT_VALUES},
        returns='none',
        # ghost event: a call decodes THIS parameter (the event log is what the walk's contract speaks about)
        ghost={'events': True, 'emits': 'self'},
        # one variant per class of parameter type (verified in parallel; chosen at call sites by the class)
        variants={c.replace('ParameterType', '').lower(): {
            'select': f"cls_is(self.parameter_type, '{c}')",
            'requires': [(f"cls_is(self.parameter_type, '{c}')", ['__proof__'])]}
            for c in SCHEMA['Parameter']['parameter_type'][1]},
        # validity of the parameter type hanging off the parameter: the preconditions of the parse_value contracts
        requires=[('param_ok(self)', ['__proof__']), ('packet.raw_data.pos >= 0', ['__proof__'])],
        reveal=['param_ok'],
        ensures={
            'decoded': ('events() == append(events0(), self)', ['__proof__']),
            'cursor_monotone': ('packet.raw_data.pos >= old(packet.raw_data.pos)', ['__proof__']),
            # C05 (PROVED): the value is stored under the parameter's own name; a new name goes to the END of the
            # packet, every other item is untouched
            'stored': ('self.name in packet', ['__proof__']),
            'order_new': ('implies(not old(self.name in packet), '
                          'keys_of(packet) == append(old(keys_of(packet)), self.name))', ['__proof__']),
            'order_kept': ('implies(old(self.name in packet), keys_of(packet) == old(keys_of(packet)))', ['__proof__']),
        },
        may_raise={k: 'True' for k in DECODE_ERRORS},
        modifies=['packet.items', 'packet.raw_data.pos'],
    ),
    Contract(
        target='xtce.containers.SequenceContainer.parse',
        props=['C05', 'C14', 'C11', 'C01'],
        params={'self': ('rec', 'SequenceContainer'), 'packet': PKT_VALUES},
        returns='none',
        ghost={'events': True},
        # every parameter reachable from here is one the proved decoders accept (param_ok, opaque here)
        requires=[('entries_ok(self)', ['__proof__']), ('packet.raw_data.pos >= 0', ['__proof__'])],
        loops={('', 0): LoopSpec(
            invariants={'decoded_so_far': 'events() == lcat(events0(), flat_upto(self, _i))',
                        'cursor_monotone': 'packet.raw_data.pos >= old(packet.raw_data.pos)'},
            havoc_ghost=['events'], modifies=['packet.items', 'packet.raw_data.pos'],
            hints=['flat_zero(self)', 'entries_ok_def(self)',
                   'implies(_i < len(self.entry_list) and cls_is(at(self.entry_list, _i), "SequenceContainer"), '
                   'entries_ok_def(at(self.entry_list, _i)))',
                   'implies(_i < len(self.entry_list), flat_step_parameter(self, _i))',
                   'implies(_i < len(self.entry_list), flat_step_container(self, _i))'])},
        ensures={
            # C05 (PROVED): the walk decodes exactly the parameters of the entry list, in entry-list order, each once,
            # nested container references expanded in place (whatever the packet holds: no early exit, no skipping)
            'walk': ('events() == lcat(events0(), flat(self))', ['__proof__']),
            'cursor_monotone': ('packet.raw_data.pos >= old(packet.raw_data.pos)', ['__proof__']),
        },
        may_raise={k: 'True' for k in DECODE_ERRORS},
        modifies=['packet.items', 'packet.raw_data.pos'],
    ),
    Contract(
        target='xtce.definitions.XtcePacketDefinition.parse_ccsds_packet',
        props=['C05', 'C01', 'C11', 'C04', 'C07', 'C08', 'C06'],
        params={'self': ('rec', 'XtcePacketDefinition'), 'packet': PKT_VALUES, 'root_container_name': ('opt', 'str')},
        returns=('arg', 'packet'),
        # callers that catch the error see the packet decoded so far as its partial_data (obligation on_raise:...:payload)
        ghost={'raise_payload': {'UnrecognizedPacketTypeError': {'partial_data': 'packet'}}},
        requires=[('len(packet.raw_data) >= 6', ['__proof__']), (f"{_REF}[0] != 'error'", ['__native__']),
                  # every container holds parameters the proved decoders accept; the cursor starts inside the packet
                  ('defn_ok(self)', ['__proof__']), ('packet.raw_data.pos >= 0', ['__proof__'])],
        hints_after={'current_container': ['defn_ok_at(self, root_container_name)']},
        loops={
            ('', 0): LoopSpec(invariants={'container_ok': f'entries_ok({CUR})',
                                          'cursor_nonneg': 'packet.raw_data.pos >= 0'},
                              modifies=['packet.items', 'packet.raw_data.pos'],
                              retype={'valid_inheritors': ('list', 'str')},
                              hints_end=['defn_ok_at(self, at(valid_inheritors, 0))'],
                              step={
                                  # C05 (PROVED): a descent happens only when EXACTLY ONE child has all its restriction
                                  # criteria satisfied, and goes to a child that satisfies them
                                  'descends_to_unique_child': (
                                      f'nvalid(pre_{CUR}, {M}, packet, len(pre_{CUR}.inheritors)) == 1 and '
                                      f'rc_match({CUR}, packet) and '
                                      f'exists(lambda k: {CUR} == {M}[at(pre_{CUR}.inheritors, k)], 0, len(pre_{CUR}.inheritors))')}),
            ('', 1): LoopSpec(invariants={
                'count': f'len(valid_inheritors) == nvalid({CUR}, {M}, packet, _i)',
                'members': (f'forall(lambda q: rc_match({M}[at(valid_inheritors, q)], packet) and '
                            f'exists(lambda k: at(valid_inheritors, q) == at({CUR}.inheritors, k), 0, _i), 0, len(valid_inheritors))'),
            }, retype={'valid_inheritors': ('list', 'str')},
                hints=[f'implies(_i < len({CUR}.inheritors), nvalid_step({CUR}, {M}, packet, _i))',
                       f'nvalid_zero({CUR}, {M}, packet)',
                       f'implies(_i < len({CUR}.inheritors), rc_match_def({M}[at({CUR}.inheritors, _i)], packet))']),
        },
        comps={0: {'elem': f'sem_crit(at({M}[inheritor_name].restriction_criteria, j), packet, None)',
                   'may_raise': ['ComparisonError', 'ValueError', 'KeyError', 'TypeError']}},
        final={
            # C05 (PROVED): a normal return happens only at a concrete container none of whose children matches
            'ends_at_concrete_leaf': (f'result is packet and {NV} == 0 and not {CUR}.abstract', ['__proof__']),
        },
        ensures={
            # bounded native stand-in (reference semantics specs/refsem.py ref_parse):
            # C05: exactly the parameters of the containers on the unique matching path, parents first, nested
            # references expanded in place; value, raw value and class of each
            'items': (f'result is packet and same_items(result, {_REF}[1])', ['__native__']),
            'views': ('list(result.header.items()) == list(result.items())[:7] and '
                      'list(result.user_data.items()) == list(result.items())[7:]', ['__native__']),
            # C11: parsing never modifies the definition
            'definition_unchanged': ('canon_definition(self) == old(canon_definition(self))', ['__native__']),
        },
        raises={'UnrecognizedPacketTypeError': (f"{_REF}[0] == 'unrecognized'", ['__native__'])},
        may_raise={'UnrecognizedPacketTypeError': ('True', ['__proof__']), 'ValueError': ('True', ['__proof__']),
                   'KeyError': ('True', ['__proof__']), 'ComparisonError': ('True', ['__proof__']),
                   'CalibrationError': ('True', ['__proof__']), 'UnicodeDecodeError': ('True', ['__proof__']),
                   'TypeError': ('True', ['__proof__']), 'OverflowError': ('True', ['__proof__'])},
        ensures_raise={'UnrecognizedPacketTypeError': {
            # C05 (PROVED): reported as unrecognized exactly at an abstract dead end or at an ambiguity, with the values
            # decoded so far
            'dead_end_or_ambiguous': (f'exc.partial_data is packet and (({NV} == 0 and {CUR}.abstract) or {NV} > 1)',
                                      ['__proof__']),
            'partial_data': (f'exc.partial_data is packet and same_items(exc.partial_data, {_REF}[1])', ['__native__'])}},
        modifies=['packet.items', 'packet.raw_data.pos'],
        native={'gen': _gen_parse, 'build': _build_parse},
    ),
    Contract(
        target='xtce.definitions.XtcePacketDefinition.packet_generator',
        props=['C11', 'C12', 'C14', 'C01'],
        params={'self': ('rec', 'XtcePacketDefinition'), 'binary_data': 'bytes', 'parse_bad_pkts': 'bool',
                'ccsds_headers_only': 'bool', 'combine_segmented_packets': 'bool',
                'secondary_header_bytes': 'int', 'yield_unrecognized_packet_errors': 'bool', 'show_progress': 'bool',
                'skip_header_bytes': 'int'},
        # the two optional pass-through arguments, one variant per combination (verified in parallel)
        variants=dict(
            {f'{rn}_{bn}': {'params': {'root_container_name': rt, 'buffer_read_size_bytes': bt}}
             for rn, rt in (('root_default', 'none'), ('root_given', 'str'))
             for bn, bt in (('buffer_default', 'none'), ('buffer_given', 'int'))},
            # the other two source kinds (E1: the assumed reader model of the framer's contract)
            file_source={'params': {'binary_data': ('source', 'file'), 'root_container_name': 'none',
                                    'buffer_read_size_bytes': 'none'}},
            socket_source={'params': {'binary_data': ('source', 'socket'), 'root_container_name': 'none',
                                      'buffer_read_size_bytes': 'none'}}),
        ghost={'yield_type': 'yieldtag'},
        requires=[('skip_header_bytes >= 0 and not show_progress and secondary_header_bytes >= 0', ['__proof__']),
                  ('defn_ok(self)', ['__proof__'])],
        loops={
            ('', 0): LoopSpec(
                invariants={
                    # representation invariant of the open groups: every group holds at least its FIRST packet, and
                    # only complete packets (a primary header and at least one byte of data)
                    'groups_nonempty': f'forall(lambda a: implies(a in {G_}, len({G_}[a]) >= 1))',
                    'groups_complete': (f'forall(lambda a: implies(a in {G_}, forall(lambda q: len(at({G_}[a], q)) >= 7, '
                                        f'0, len({G_}[a]))))'),
                },
                havoc_yielded=True, retype={'_segmented_packets': GROUPS},
                step={
                    # C12 (PROVED): the step function of the statement, per APID
                    'at_most_one_item': 'len(out) <= len(pre_out) + 1',
                    'headers_only': f'implies(ccsds_headers_only, {G_} == {G0_} and len(out) == len(pre_out) + 1)',
                    'alone': f'implies(not ccsds_headers_only and {ALONE}, {G_} == {G0_})',
                    'first_opens': (f'implies({SEG} and {F_} == 1, {G_} == mset({G0_}, {A_}, [raw_packet_data]) and '
                                    'len(out) == len(pre_out))'),
                    'continuation_joins': (f'implies({SEG} and {F_} == 0 and {A_} in {G0_}, '
                                           f'{G_} == mset({G0_}, {A_}, {GROUP}) and len(out) == len(pre_out))'),
                    'orphan_dropped': (f'implies({SEG} and ({F_} == 0 or {F_} == 2) and not ({A_} in {G0_}), '
                                       f'{G_} == {G0_} and len(out) == len(pre_out))'),
                    'last_closes': f'implies({SEG} and {F_} == 2 and {A_} in {G0_}, {G_} == mdel({G0_}, {A_}))',
                    'gap_dropped': (f'implies({SEG} and {F_} == 2 and {A_} in {G0_} and not in_sequence({GROUP}), '
                                    'len(out) == len(pre_out))'),
                }),
            ('', 1): LoopSpec(invariants={
                'joined': f'raw_data == cat(at(segmented_packets, 0), tails(segmented_packets, 1 + _i, {HDRLEN}))'},
                retype={'raw_data': 'bytes'},
                hints=[f'tails_base(segmented_packets, {HDRLEN})',
                       f'implies(1 + _i < len(segmented_packets), tails_step(segmented_packets, 1 + _i, {HDRLEN}))']),
        },
        comps={('list', 0): {'elem': 'bits(at(segmented_packets, j), 18, 14)', 'may_raise': ['ValueError']},
               0: {'elem': '(at(sequence_counts, j + 1) - at(sequence_counts, j)) % 16384 == 1'}},
        yields={
            'headers_only': ('implies(ccsds_headers_only, item is raw_packet_data)', PROOF),
            # C11 (PROVED): otherwise a parsed packet, or - only on request - the error object of an unrecognized packet
            # carrying the values decoded so far
            'kinds': ('ccsds_headers_only or item is packet or (yield_unrecognized_packet_errors and item is e)', PROOF),
            'error_carries_partial': ('implies(not ccsds_headers_only and not (item is packet), item.partial_data is packet)', PROOF),
            # C11 / C12 (PROVED): what was parsed is this raw packet alone, or - exactly when a LAST packet closes an open
            # group of its APID with consecutive counts - the whole first packet followed by the later ones without
            # their primary and secondary headers
            'parsed_alone': (f'implies(not ccsds_headers_only and {ALONE}, bytes(packet.raw_data) == bytes(raw_packet_data))', PROOF),
            'parsed_group': (f'implies(not ccsds_headers_only and not {ALONE}, {F_} == 2 and {A_} in {G0_} and '
                             f'in_sequence({GROUP}) and bytes(packet.raw_data) == combined({GROUP}, {HDRLEN}))', PROOF),
            # C14 (PROVED): delivered without the length warning exactly when every bit was consumed, and withheld
            # otherwise unless bad packets were asked for
            'clean_iff_consumed': ('implies(not ccsds_headers_only and item is packet, '
                                   '(not warned()) == (packet.raw_data.pos == 8 * len(packet.raw_data)) and '
                                   '(parse_bad_pkts or packet.raw_data.pos == 8 * len(packet.raw_data)))', PROOF),
        },
        final={},
        may_raise={k: ('True', ['__proof__']) for k in ('ValueError', 'KeyError', 'ComparisonError', 'CalibrationError',
                                                         'UnicodeDecodeError', 'TypeError', 'OverflowError')},
        ensures={
            # C11: in stream order exactly what parsing each packet on its own yields; C12: per-APID reassembly;
            # C14: yielded without the length warning iff all bits were consumed (and withheld when excluded)
            'stream': (f'stream_matches(result, {_SREF})', ['__native__']),
            'definition_unchanged': ('canon_definition(self) == old(canon_definition(self))', ['__native__']),
        },
        modifies=[],
        native={'gen': _gen_stream, 'build': _build_stream},
    ),
]


# =====================================================================================================================
# load path (C16, C17, C05 inheritor resolution, load half of C01): documents emitted by contracts/_xmlgen.py
# =====================================================================================================================
NS_STYLES = [['prefix', 'xtce'], ['prefix', 'custom'], ['prefix', 'x'], ['default', None], ['none', None]]
CORRUPTIONS = ['dup_param', 'dup_ptype', 'dup_container_conflict', 'undef_param_ref', 'undef_type_ref', 'undef_base',
               'undef_nested', 'base_cycle', 'nest_cycle']


def _enrich(rng, d):
    """add what the object-built family does not have: unconditional inheritance, forward references to nested
    containers, referenced binary lengths with linear adjustment, context calibrators, descriptions"""
    import copy
    d = copy.deepcopy(d)
    conts = d['containers']
    if rng.random() < 0.5:
        # a child that inherits unconditionally (BaseContainer without RestrictionCriteria) from a concrete child
        parents = [c for c in conts if c['base'] == 'CCSDSPacket' and not any(o['base'] == c['name'] for o in conts)]
        if parents:
            p = rng.choice(parents)
            d['ptypes'].append({'name': 'TAIL_T', 'kind': 'int', 'w': 8, 'enc': 'unsigned', 'order': 'mostSignificantByteFirst'})
            d['params'].append({'name': 'TAIL', 'type': 'TAIL_T'})
            conts.append({'name': p['name'] + '_ALWAYS', 'entries': ['TAIL'], 'base': p['name'], 'criteria': [], 'abstract': False})
    if rng.random() < 0.6:
        # forward references: several users of SUB, its own element placed after the first user, between users or last
        sub = [c for c in conts if c['name'] == 'SUB'][0]
        kids = [c for c in conts if c['base'] == 'CCSDSPacket']
        for kdef in kids:
            if rng.random() < 0.6 and not any(isinstance(e, dict) for e in kdef['entries']):
                kdef['entries'].append({'c': 'SUB'})
        conts.remove(sub)
        users = [i for i, c in enumerate(conts) if any(isinstance(e, dict) and e['c'] == 'SUB' for e in c['entries'])]
        pos = rng.choice([len(conts)] + [u + 1 for u in users]) if users else len(conts)
        conts.insert(pos, sub)
    if rng.random() < 0.5:
        d['ptypes'].append({'name': 'BLOB_T', 'kind': 'bin', 'ref': 'MODE', 'use_cal': rng.choice([True, False]),
                            # an attribute given as None is left out of <LinearAdjustment> (XTCE default: 0)
                            'adj': rng.choice([[8, 0], [8, 8], [None, 16], [8, None], [1, 8]])})
        d['params'].append({'name': 'BLOB', 'type': 'BLOB_T'})
        kids = [c for c in conts if c['base'] == 'CCSDSPacket']
        rng.choice(kids)['entries'].append('BLOB')
    if rng.random() < 0.5:
        # a string whose length comes from MODE (raw or calibrated as declared) through a linear adjustment
        d['ptypes'].append({'name': 'TXT_T', 'kind': 'str', 'encoding': 'US-ASCII', 'ref': 'MODE',
                            'use_cal': rng.choice([True, False]), 'adj': [8, 8]})
        d['params'].append({'name': 'TXT', 'type': 'TXT_T'})
        kids = [c for c in conts if c['base'] == 'CCSDSPacket']
        rng.choice(kids)['entries'].append('TXT')
    if rng.random() < 0.5:
        ints = [t for t in d['ptypes'] if t['kind'] == 'int' and t['name'].startswith('C')]
        if ints:
            t = rng.choice(ints)
            t['ctx'] = [[[['MODE', '==', str(m), rng.choice([True, False])]], ['poly', [[float(m), 0], [2.0, 1]]]]
                        for m in range(rng.randint(1, 3))]
    if rng.random() < 0.5:
        # lengths looked up from criteria, entries with one comparison and with a LIST of comparisons
        lookups = [[[['MODE', '==', str(m), True]] + ([['VERSION', '>=', '0', True]] if m % 2 else []), 8 * (m + 1)]
                   for m in range(3)]
        kind = rng.choice(['bin2', 'str2'])
        t = {'name': 'LKP_T', 'kind': kind, 'lookups': lookups}
        if kind == 'str2':
            t['encoding'] = 'US-ASCII'
        d['ptypes'].append(t)
        d['params'].append({'name': 'LKP', 'type': 'LKP_T'})
        kids = [c for c in conts if c['base'] == 'CCSDSPacket']
        rng.choice(kids)['entries'].append('LKP')
    for c in conts:
        if rng.random() < 0.2:
            c['long_description'] = f"container {c['name']}"
    return d


def _corrupt(rng, d, how):
    import copy
    d = copy.deepcopy(d)
    conts = d['containers']
    kids = [c for c in conts if c['base'] == 'CCSDSPacket']
    if how == 'dup_param':
        d['params'].append(dict(rng.choice(d['params'])))
    elif how == 'dup_ptype':
        d['ptypes'].append(dict(rng.choice(d['ptypes'])))
    elif how == 'dup_container_conflict':
        c = copy.deepcopy(rng.choice(kids))
        c['entries'] = c['entries'][:-1] if len(c['entries']) > 1 else c['entries'] + ['VERSION']
        conts.append(c)
    elif how == 'undef_param_ref':
        rng.choice(conts)['entries'].append('NO_SUCH_PARAMETER')
    elif how == 'undef_type_ref':
        d['params'].append({'name': 'ORPHAN', 'type': 'NO_SUCH_TYPE'})
    elif how == 'undef_base':
        rng.choice(kids)['base'] = 'NO_SUCH_CONTAINER'
    elif how == 'undef_nested':
        rng.choice(conts)['entries'].append({'c': 'NO_SUCH_CONTAINER'})
    elif how == 'base_cycle':
        a = rng.choice(kids)
        root = conts[0]
        root['base'] = a['name']
        root['criteria'] = []
    elif how == 'nest_cycle':
        sub = [c for c in conts if c['name'] == 'SUB'][0]
        user = rng.choice(kids)
        user['entries'].append({'c': 'SUB'})
        sub['entries'].append({'c': user['name']})
    return d


def _gen_load(rng, tier, variant):
    """definitions of the object-built family enriched with unconditional inheritance, forward references, dynamic
    binary lengths and context calibrators; every namespace convention (prefix of three different names, default
    namespace, none); comments and whitespace between all elements; prior load histories of 0..3 other documents
    (other conventions, malformed XML, documents that fail to load); and each single-point corruption"""
    from contracts._defgen import gen_definition
    for i in range(40 if tier == 'quick' else 600):
        d = _enrich(rng, gen_definition(rng))
        for style in NS_STYLES:
            hist = []
            for _ in range(rng.choice([0, 0, 1, 2, 3])):
                hist.append(rng.choice(['other:' + str(rng.randint(0, 4)), 'malformed', 'corrupt']))
            yield {'def': d, 'ns': style, 'comments': rng.choice([None, 0.3, 0.8]), 'history': hist, 'seed': rng.randint(0, 10 ** 6),
                   'corrupt': None}
        for how in CORRUPTIONS:
            if rng.random() < (0.35 if tier == 'quick' else 1.0):
                yield {'def': _corrupt(rng, d, how), 'ns': rng.choice(NS_STYLES), 'comments': None, 'history': [], 'seed': 1,
                       'corrupt': how}


def _load(fn, args):
    import io
    import random
    from contracts._defgen import gen_definition
    from contracts._xmlgen import recipe_to_xml
    from space_packet_parser.xtce.definitions import XtcePacketDefinition
    r = args['recipe']
    rng = random.Random(r['seed'])
    for h in r['history']:
        try:
            if h == 'malformed':
                XtcePacketDefinition.from_xtce(io.BytesIO(b'<SpaceSystem><unclosed></SpaceSystem>'))
            elif h == 'corrupt':
                bad = _corrupt(rng, gen_definition(rng), 'undef_param_ref')
                XtcePacketDefinition.from_xtce(io.BytesIO(recipe_to_xml(bad, 'default').encode()), xtce_ns_prefix=None)
            else:
                st = NS_STYLES[int(h.split(':')[1])]
                XtcePacketDefinition.from_xtce(io.BytesIO(recipe_to_xml(gen_definition(rng), st[0], st[1] or 'xtce').encode()),
                                               xtce_ns_prefix=st[1] if st[0] == 'prefix' else None)
        except Exception:   # noqa
            pass
    style, prefix = r['ns']
    text = recipe_to_xml(r['def'], style, prefix or 'xtce', r['comments'], rng)
    return XtcePacketDefinition.from_xtce(io.BytesIO(text.encode()), xtce_ns_prefix=prefix if style == 'prefix' else None,
                                          root_container_name=r['def']['root'])


def _build_load(r):
    def make():
        import warnings
        warnings.simplefilter('ignore')
        from contracts._defgen import build_definition
        ref = None
        if not r['corrupt']:
            # reference graph: the same recipe assembled from OBJECTS (no reader involved)
            ref = build_definition(r['def'])
        return {'recipe': r, 'corrupt': bool(r['corrupt']), 'reference': ref}
    return {'make': make, 'invoke': _load}


CONTRACTS += [
    Contract(
        target='xtce.definitions.XtcePacketDefinition.from_xtce',
        props=['C16', 'C17', 'C05', 'C01', 'C04', 'C06', 'C07', 'C08'],
        params={}, native_only=PENDING,
        requires=[],
        ensures={
            # C17: a consistent object graph
            'graph': 'consistent_graph(result)',
            # C16: independent of namespace convention, comments / whitespace, and of earlier loads
            'spelling_and_history': 'same_definition(result, reference)',
        },
        # C17: broken documents are rejected when loaded
        raises={'Exception': 'corrupt'},
        modifies=[],
        native={'gen': _gen_load, 'build': _build_load},
    ),
]


# =====================================================================================================================
# write / load round trips (C09, C15): bounded only
# =====================================================================================================================
def _enrich_rt(rng, d, objects_only=False, time_case=None):
    """features that matter for serialisation: adjustments with slope 1 / non-zero intercept, zero-size binaries,
    lookup lists, units, descriptions, UTF-16 strings with explicit byte order, time types"""
    d = _enrich(rng, d)
    conts = d['containers']
    kids = [c for c in conts if c['base'] == 'CCSDSPacket']
    for t in d['ptypes']:
        if t['kind'] in ('bin', 'str') and t.get('adj'):
            t['adj'] = rng.choice([[8, 0], [1, 0], [1, 8], [8, 16], [2, 4]])
    d['date'] = '2024-01-01T00:00:00'
    d['space_system_name'] = rng.choice(['VERIF', 'VERIF', None])
    # calibrator break points and coefficients that need more than six significant digits
    for t in d['ptypes']:
        if t['kind'] == 'int' and t.get('default') and rng.random() < 0.5:
            t['default'] = rng.choice([['spline', [[0.0, 26.853125], [1048577.0, 1234567.875]], rng.choice([0, 1]), True],
                                       ['poly', [[0.123456789, 0], [1048577.25, 1]]]])
    if objects_only:
        extra = []
        lookups = [[[['MODE', '==', str(m), True]], 8 * (m + 1)] for m in range(3)]
        e16 = rng.choice(['UTF-16', 'UTF-16LE', 'UTF-16BE', 'UTF-8', 'UTF-32'])
        bo = {'UTF-16LE': 'leastSignificantByteFirst', 'UTF-16BE': 'mostSignificantByteFirst', 'UTF-8': None}.get(
            e16, rng.choice(['mostSignificantByteFirst', 'leastSignificantByteFirst']))
        extra.append({'name': 'X_UTF16_T', 'kind': 'str2', 'encoding': e16, 'byte_order': rng.choice([bo, None]) if e16.endswith('E') else bo,
                      'bits': 32})
        extra.append({'name': 'X_TERM_T', 'kind': 'str2', 'encoding': 'UTF-8', 'bits': 32, 'term': '00', 'unit': rng.choice([None, 'm'])})
        extra.append({'name': 'X_LEAD_T', 'kind': 'str2', 'encoding': 'US-ASCII', 'bits': 32, 'lead': 8})
        extra.append({'name': 'X_LKS_T', 'kind': 'str2', 'encoding': 'US-ASCII', 'lookups': lookups})
        extra.append({'name': 'X_LKB_T', 'kind': 'bin2', 'lookups': lookups})
        extra.append({'name': 'X_BIN0_T', 'kind': 'bin', 'bits': rng.choice([0, 8])})
        extra.append({'name': 'X_TIME_T', 'kind': 'time', 'w': 32, 'absolute': rng.choice([True, False]),
                      'unit': rng.choice([None, 's']), 'epoch': rng.choice([None, 'TAI', '2000-01-01T12:00:00']),
                      'offset_from': rng.choice([None, 'MODE']),
                      'default': rng.choice([None, ['poly', [[5.0, 0], [0.5, 1]]], ['poly', [[2.0, 1]]]])})
        chosen = rng.sample(extra, rng.randint(1, 4))
        if time_case is not None:
            # systematic: every combination of (absolute, epoch, offset_from, scale/offset calibrator)
            a_, ep_, of_, cal_ = time_case
            chosen = [{'name': 'X_TIME_T', 'kind': 'time', 'w': 32, 'absolute': a_, 'unit': 's', 'epoch': ep_,
                       'offset_from': of_, 'default': cal_}]
        tail = {'name': 'XTAIL', 'entries': [], 'base': None, 'criteria': None, 'abstract': False}
        for t in chosen:
            d['ptypes'].append(t)
            pname = t['name'][:-2]
            d['params'].append({'name': pname, 'type': t['name']})
            tail['entries'].append(pname)
        conts.append(tail)
    return d


def _gen_roundtrip(rng, tier, variant):
    """definitions of the enriched family built from OBJECTS and the same family LOADED from XML (three namespace
    conventions), each with packets reaching every container"""
    from contracts._defgen import gen_definition, gen_packet
    for _ in range(60 if tier == 'quick' else 800):
        how = rng.choice(['objects', 'objects+', 'objects+', 'loaded:prefix', 'loaded:default', 'loaded:none'])
        d = _enrich_rt(rng, gen_definition(rng), objects_only=(how == 'objects+'))
        pk = [gen_packet(rng, d).hex() for _ in range(6)]
        yield {'def': d, 'pkts': pk, 'how': how}
    import itertools
    for case in itertools.product([True, False], [None, 'TAI'], [None, 'MODE'],
                                  [None, ['poly', [[5.0, 0], [0.5, 1]]], ['poly', [[2.0, 1]]]]):
        d = _enrich_rt(rng, gen_definition(rng), objects_only=True, time_case=case)
        yield {'def': d, 'pkts': [gen_packet(rng, d).hex() for _ in range(3)], 'how': 'objects+'}


def _build_roundtrip(r):
    def make():
        import warnings
        warnings.simplefilter('ignore')
        from contracts._defgen import build_definition
        from contracts._xmlgen import load_recipe
        if r['how'].startswith('objects'):
            d = build_definition(r['def'])
        else:
            style = r['how'].split(':')[1]
            d = load_recipe(r['def'], style, 'xtce')
            d.date = r['def']['date']
        return {'definition': d, 'raws': [bytes.fromhex(p) for p in r['pkts']]}
    return {'make': make}


CONTRACTS += [
    Contract(
        target='ghost.c09_roundtrip',
        props=['C09', 'C15'],
        params={}, requires=[], ensures={}, modifies=[],
        native_only='XML writers and readers run on lxml (C code, E6): bounded enumeration of write/load cycles only',
        native={'gen': _gen_roundtrip, 'build': _build_roundtrip},
    ),
]
