"""Sidecar contracts for space_packet_parser/xtce/comparisons.py (C06)."""
from pyvc.cdef import Contract, LoopSpec
import specs.refsem as R

SCHEMA = {
    'Condition': {'left_param': 'str', 'operator': 'str', 'right_param': ('opt', 'str'), 'right_value': ('opt', 'str'),
                  'left_use_calibrated_value': 'bool', 'right_use_calibrated_value': 'bool'},
    'BooleanExpression': {'expression': ('rec', ['Condition', 'Anded', 'Ored'])},
    'Anded': {'conditions': ('list', ('rec', 'Condition')), 'ors': ('list', ('rec', 'Ored'))},
    'Ored': {'conditions': ('list', ('rec', 'Condition')), 'ands': ('list', ('rec', 'Anded'))},
    'DiscreteLookup': {'match_criteria': ('list', ('rec', 'Comparison')), 'lookup_value': 'real'},
    'Comparison': {'required_value': 'str', 'referenced_parameter': 'str', 'operator': 'str',
                   'use_calibrated_value': 'bool'},
}
NATIVE_ENV = {k: getattr(R, k) for k in dir(R) if not k.startswith('_')}

PENDING = ("contract evaluated by the bounded native stand-in only: the criteria semantics are stated over dynamically "
           "typed packet values (ref_* oracles in specs/refsem.py); the symbolic front end does not translate these "
           "oracles yet")

OPS = ["==", "eq", "!=", "neq", "&lt;", "lt", "<", "&gt;", "gt", ">", "&lt;=", "leq", "<=", "&gt;=", "geq", ">="]


def _enc(v):
    if isinstance(v, float):
        return {'f': repr(v)}
    if isinstance(v, bytes):
        return {'b': v.hex()}
    return v


def _dec(v):
    if isinstance(v, dict) and 'f' in v:
        return float(v['f'])
    if isinstance(v, dict) and 'b' in v:
        return bytes.fromhex(v['b'])
    return v


def mk_value(spec):
    """spec = [class name, value, raw] -> parsed value object"""
    import space_packet_parser.common as c
    return getattr(c, spec[0])(_dec(spec[1]), _dec(spec[2]))


def mk_packet(items):
    from space_packet_parser.packets import CCSDSPacket
    p = CCSDSPacket(raw_data=b'')
    for name, spec in items:
        p[name] = mk_value(spec)
    return p


VALUES = [
    ['IntParameter', 0, None], ['IntParameter', 5, None], ['IntParameter', -3, None], ['IntParameter', 7, 0],
    ['FloatParameter', 0.0, 0], ['FloatParameter', 5.0, 5], ['FloatParameter', 2.5, 1], ['FloatParameter', -0.5, 3],
    ['FloatParameter', 50.0, 0], ['StrParameter', '', 0], ['StrParameter', 'ON', 1], ['StrParameter', '5', 5],
    ['StrParameter', 'abc', b'abc'],
]
LITERALS = ['0', '5', '-3', '2.5', '5.0', 'ON', '', 'abc', 'x1', '1e1', '0.0', '7']


def _gen_comparison(rng, tier, variant):
    """every accepted operator spelling x both selectors x values of the int / float / str classes including
    0, 0.0, '' and negative ones (raw and calibrated differing) x literals parseable and unparseable in the value's
    type; referenced parameter present / absent with and without a current value"""
    for op in OPS:
        for use_cal in (True, False):
            for val in VALUES:
                lits = LITERALS if tier == 'thorough' else [rng.choice(LITERALS) for _ in range(4)] + [str(val[1]), str(val[2] if val[2] is not None else val[1])]
                for lit in lits:
                    yield {'op': op, 'cal': use_cal, 'items': [['P', [val[0], _enc(val[1]), _enc(val[2])]]], 'lit': lit,
                           'ref': 'P', 'cur': None}
    for op in OPS:
        for cur in (None, 0, 5, 2.5, -1):
            for lit in ('0', '5', '2.5', 'x'):
                yield {'op': op, 'cal': rng.choice([True, False]), 'items': [['Q', ['IntParameter', 1, None]]],
                       'lit': lit, 'ref': 'P', 'cur': _enc(cur)}
    # floats that differ from the literal by one unit in the last place or by less than 1e-9 relative, and integers
    # beyond 2**53 against float values: the relation is the exact one, not an approximate one
    near = [(1.0 + 2 ** -40, '1.0'), (1.0, '1.0000000000009095'), (4294967296.0, '4294967297'), (0.1 + 0.2, '0.3'),
            (1e-12, '0'), (9007199254740992.0, '9007199254740993'), (2.5, '2.5000000000000004'), (-1.0 - 2 ** -45, '-1')]
    for op in OPS:
        for v, lit in near:
            for cls_, raw in (('FloatParameter', 1), ('FloatParameter', None)):
                yield {'op': op, 'cal': True, 'items': [['P', [cls_, _enc(v), _enc(raw)]]], 'lit': lit, 'ref': 'P', 'cur': None}
            yield {'op': op, 'cal': False, 'items': [['Q', ['IntParameter', 1, None]]], 'lit': lit, 'ref': 'P', 'cur': _enc(v)}


def _build_comparison(r):
    def make():
        import warnings
        warnings.simplefilter('ignore')
        from space_packet_parser.xtce.comparisons import Comparison
        c = Comparison(r['lit'], r['ref'], operator=r['op'], use_calibrated_value=r['cal'])
        return {'self': c, 'packet': mk_packet(r['items']), 'current_parsed_value': _dec(r['cur'])}
    return {'make': make}


def _gen_condition(rng, tier, variant):
    """left x right operand classes in {int, float, str}^2 incl. int-versus-float and falsy values, right side a
    parameter or a literal, both selectors on both sides, every operator spelling, absent parameters"""
    nums = [['IntParameter', 0, None], ['IntParameter', 5, None], ['IntParameter', -3, 2], ['FloatParameter', 0.0, 0],
            ['FloatParameter', 5.0, 5], ['FloatParameter', 2.5, 1], ['FloatParameter', 5.5, 5]]
    strs = [['StrParameter', '', 0], ['StrParameter', 'ON', 1], ['StrParameter', 'OFF', 0]]
    for op in OPS:
        for lv in nums + strs:
            for rv in (nums if lv in nums else strs):
                for lcal in (True, False):
                    for rcal in (True, False):
                        if tier == 'quick' and rng.random() < 0.6:
                            continue
                        yield {'op': op, 'items': [['L', [lv[0], _enc(lv[1]), _enc(lv[2])]], ['R', [rv[0], _enc(rv[1]), _enc(rv[2])]]],
                               'left': 'L', 'rparam': 'R', 'rvalue': None, 'lcal': lcal, 'rcal': rcal,
                               'cur': CUR_OF_VARIANT.get(variant)}
            for lit in ('0', '5', '2.5', 'ON', ''):
                yield {'op': op, 'items': [['L', [lv[0], _enc(lv[1]), _enc(lv[2])]]], 'left': 'L', 'rparam': None,
                       'rvalue': lit, 'lcal': rng.choice([True, False]), 'rcal': False, 'cur': CUR_OF_VARIANT.get(variant)}
        yield {'op': op, 'items': [['L', ['IntParameter', 1, None]]], 'left': 'X', 'rparam': None, 'rvalue': '1',
               'lcal': True, 'rcal': False}
        yield {'op': op, 'items': [['L', ['IntParameter', 1, None]]], 'left': 'L', 'rparam': 'Y', 'rvalue': None,
               'lcal': True, 'rcal': True}


CUR_OF_VARIANT = {'no_current': None, 'current_int': 3, 'current_float': 2.5, '': None}


def _build_condition(r):
    def make():
        from space_packet_parser.xtce.comparisons import Condition
        c = Condition(r['left'], r['op'], right_param=r['rparam'], right_value=r['rvalue'],
                      left_use_calibrated_value=r['lcal'], right_use_calibrated_value=r['rcal'])
        return {'self': c, 'packet': mk_packet(r['items']), 'current_parsed_value': r.get('cur')}
    return {'make': make}


def _rand_cond(rng):
    """[left, operator, literal | None, right parameter | None, left selector, right selector] over A/B"""
    if rng.random() < 0.6:
        return [rng.choice('AB'), rng.choice(['==', '!=', '<=', 'gt']), rng.choice(['0', '1']), None,
                rng.choice([True, False]), False]
    return [rng.choice('AB'), rng.choice(['==', '!=', '<']), None, rng.choice('AB'), rng.choice([True, False]),
            rng.choice([True, False])]


def _rand_tree(rng, depth, kind, rich=False):
    """nested ANDed/ORed groups over conditions A..D == 1 (rich: conditions with both selectors, several operators and
    parameter right sides, repeated with variations inside one tree)"""
    conds = [rng.choice('ABCD') for _ in range(rng.randint(0, 2))]
    if rich:
        conds = [_rand_cond(rng) for _ in range(rng.randint(0, 3))]
    subs = []
    if depth > 0:
        for _ in range(rng.randint(0, 2)):
            subs.append(_rand_tree(rng, depth - 1, 'or' if kind == 'and' else 'and', rich))
    if not conds and not subs:
        conds = [_rand_cond(rng) if rich else rng.choice('ABCD')]
    return {'k': kind, 'c': conds, 's': subs}


def _all_trees(depth, kind):
    """exhaustive small trees: 0..1 conditions from {A, B}, 0..1 nested group"""
    out = []
    for conds in ([], ['A'], ['A', 'B']):
        subs_options = [[]]
        if depth > 0:
            subs_options += [[t] for t in _all_trees(depth - 1, 'or' if kind == 'and' else 'and')]
        for subs in subs_options:
            if conds or subs:
                out.append({'k': kind, 'c': conds, 's': subs})
    return out


def _gen_boolexpr(rng, tier, variant):
    """all ANDed/ORed trees of depth <= 3 over conditions on two parameters with every 0/1 assignment (exhaustive),
    random trees of depth <= 5 over four parameters with random assignments, and single-condition expressions"""
    import itertools
    for kind in ('and', 'or'):
        for t in _all_trees(3, kind):
            for a, b in itertools.product((0, 1), repeat=2):
                yield {'tree': t, 'vals': {'A': a, 'B': b, 'C': 0, 'D': 1}, 'cur': CUR_OF_VARIANT.get(variant)}
    for _ in range(400 if tier == 'quick' else 6000):
        t = _rand_tree(rng, rng.randint(0, 5), rng.choice(['and', 'or']))
        yield {'tree': t, 'vals': {k: rng.randint(0, 1) for k in 'ABCD'}, 'cur': CUR_OF_VARIANT.get(variant)}
    for v in (0, 1):
        yield {'tree': {'k': 'cond', 'c': ['A'], 's': []}, 'vals': {'A': v, 'B': 0, 'C': 0, 'D': 0}, 'cur': CUR_OF_VARIANT.get(variant)}
    # conditions that differ ONLY in a selector, an operator or the kind of right operand, on packets whose raw and
    # calibrated values give different truth values: every condition of a tree is evaluated on its own terms
    for _ in range(400 if tier == 'quick' else 6000):
        t = _rand_tree(rng, rng.randint(0, 3), rng.choice(['and', 'or']), rich=True)
        yield {'tree': t, 'vals': {k: rng.randint(0, 1) for k in 'ABCD'}, 'raws': {k: rng.randint(0, 1) for k in 'ABCD'},
               'cur': CUR_OF_VARIANT.get(variant)}
    for kind in ('and', 'or'):
        for a, ra in ((0, 1), (1, 0), (1, 1), (0, 0)):
            for sel in ((True, False), (False, True)):
                t = {'k': kind, 'c': [['A', '==', '1', None, sel[0], False], ['A', '==', '1', None, sel[1], False]], 's': []}
                yield {'tree': t, 'vals': {'A': a, 'B': 1, 'C': 0, 'D': 1}, 'raws': {'A': ra, 'B': 0, 'C': 0, 'D': 1},
                       'cur': CUR_OF_VARIANT.get(variant)}
                t2 = {'k': kind, 'c': [['A', '==', None, 'B', sel[0], sel[1]], ['A', '==', None, 'B', sel[1], sel[0]]], 's': []}
                yield {'tree': t2, 'vals': {'A': a, 'B': 1, 'C': 0, 'D': 1}, 'raws': {'A': ra, 'B': 0, 'C': 0, 'D': 1},
                       'cur': CUR_OF_VARIANT.get(variant)}


def _mk_tree(t):
    from space_packet_parser.xtce.comparisons import Condition, Anded, Ored
    conds = [Condition(n, '==', right_value='1', right_use_calibrated_value=False) if isinstance(n, str) else
             Condition(n[0], n[1], right_value=n[2], right_param=n[3], left_use_calibrated_value=n[4],
                       right_use_calibrated_value=n[5]) for n in t['c']]
    if t['k'] == 'cond':
        return conds[0]
    subs = [_mk_tree(s) for s in t['s']]
    return Anded(conds, subs) if t['k'] == 'and' else Ored(conds, subs)


def _build_boolexpr(r):
    def make():
        from space_packet_parser.xtce.comparisons import BooleanExpression
        raws = r.get('raws') or {}
        items = [[k, ['IntParameter', v, raws.get(k)]] for k, v in r['vals'].items()]
        return {'self': BooleanExpression(_mk_tree(r['tree'])), 'packet': mk_packet(items),
                'current_parsed_value': r.get('cur')}
    return {'make': make}


def _gen_lookup(rng, tier, variant):
    """lookups with 1..3 comparisons (==, >=, <) over two int parameters with values 0..3, lookup values 0, 8, 16.5"""
    for _ in range(600 if tier == 'quick' else 6000):
        n = rng.randint(1, 3)
        crit = [[rng.choice('AB'), rng.choice(['==', '>=', '<', 'neq']), str(rng.randint(0, 3)), rng.choice([True, False])]
                for _ in range(n)]
        yield {'crit': crit, 'value': _enc(rng.choice([0.0, 8.0, 16.5])), 'vals': {'A': rng.randint(0, 3), 'B': rng.randint(0, 3)}}


def _build_lookup(r):
    def make():
        from space_packet_parser.xtce.comparisons import Comparison, DiscreteLookup
        crit = [Comparison(lit, ref, operator=op, use_calibrated_value=cal) for ref, op, lit, cal in r['crit']]
        items = [[k, ['IntParameter', v, None]] for k, v in r['vals'].items()]
        return {'self': DiscreteLookup(crit, _dec(r['value'])), 'packet': mk_packet(items), 'current_parsed_value': None}
    return {'make': make}


# packets whose values are of the classes C06 speaks about (int / float / text; raw values int / float / text)
PKT_C06 = ('mobj', 'CCSDSPacket', {'__items__': ('odict', {'kinds': ['IntParameter', 'FloatParameter', 'StrParameter'],
                                                         'rawkinds': ['int', 'real', 'str']})})
OP_VALID = 'valid_op(self.operator)'

CONTRACTS = [
    Contract(
        target='xtce.comparisons.Comparison.evaluate',
        props=['C06', 'C05', 'C07', 'C08', 'C01'],
        params={'self': ('rec', 'Comparison'), 'packet': PKT_C06},
        variants={'no_current': {'params': {'current_parsed_value': 'none'}},
                  'current_int': {'params': {'current_parsed_value': 'int'}},
                  'current_float': {'params': {'current_parsed_value': 'real'}}},
        returns='bool',
        # class invariant established by Comparison._validate: the operator is one of the accepted spellings;
        # bool- and bytes-valued operands are outside the statement (the packet type above / the native scope predicate)
        requires=[('comparison_in_scope(self, packet, current_parsed_value)', ['__native__'])],
        may_raise={'KeyError': 'not valid_op(self.operator)'},
        ensures={
            # C06 (PROVED): a genuine bool equal to the stated relation applied to the selected value and the literal
            # interpreted in the type of that value - for EVERY value, zero / negative / empty included
            'truth': ('result == sem_comparison(self, packet, current_parsed_value)', ['__proof__']),
            # the same, as the closed term clients quantify over (definition revealed here, opaque elsewhere)
            'denotes': ('result == sem_cmp(self, packet, current_parsed_value)', ['__proof__']),
            # native: against the independent reference with exact rational comparison
            'truth_exact': ('(result is True or result is False) and '
                            'result == ref_comparison(self, packet, current_parsed_value)', ['__native__']),
        },
        raises={
            'ComparisonError': 'not coercible(selected_value(self, packet, current_parsed_value), self.required_value)',
            'ValueError': 'not (self.referenced_parameter in packet) and current_parsed_value is None',
        },
        reveal=['sem_cmp'],
        modifies=[],
        native={'gen': _gen_comparison, 'build': _build_comparison},
    ),
    Contract(
        target='xtce.comparisons.Condition.evaluate',
        props=['C06', 'C05', 'C08', 'C01'],
        params={'self': ('rec', 'Condition'), 'packet': PKT_C06},
        variants={'no_current': {'params': {'current_parsed_value': 'none'}}, 'current_int': {'params': {'current_parsed_value': 'int'}}, 'current_float': {'params': {'current_parsed_value': 'real'}}},
        returns='bool',
        # operands of the same kind (both numeric - int versus float included - or both text); other mixtures are
        # outside the property statement.  The operator spelling is validated by Condition._validate.
        requires=[
                  ('condition_in_scope(self, packet)', ['__native__'])],
        # an operator outside the accepted spellings (excluded by Condition._validate) -> KeyError; ordering between text
        # and numbers (outside the statement) -> TypeError
        may_raise={'KeyError': 'not valid_op(self.operator)', 'TypeError': 'True'},
        ensures={
            # PROVED: a genuine bool (never NotImplemented) equal to the relation over the two selected operands,
            # int-versus-float operands compared mathematically
            'truth': ('result == sem_condition(self, packet)', ['__proof__']),
            'denotes': ('result == sem_cond(self, packet)', ['__proof__']),
            'truth_exact': ('(result is True or result is False) and result == ref_condition(self, packet)', ['__native__']),
        },
        raises={
            'ComparisonError': ('not (self.left_param in packet) or '
                                '(not is_none(self.right_param) and not (self.right_param in packet))'),
            'ValueError': ('self.left_param in packet and is_none(self.right_param) and (is_none(self.right_value) or '
                           'not coercible(cond_side(packet, self.left_param, self.left_use_calibrated_value), self.right_value))'),
        },
        reveal=['sem_cond'],
        modifies=[],
        native={'gen': _gen_condition, 'build': _build_condition},
    ),
    Contract(
        target='xtce.comparisons.BooleanExpression.evaluate',
        props=['C06', 'C05', 'C08', 'C01'],
        params={'self': ('rec', 'BooleanExpression'), 'packet': PKT_C06},
        variants={'no_current': {'params': {'current_parsed_value': 'none'}}, 'current_int': {'params': {'current_parsed_value': 'int'}}, 'current_float': {'params': {'current_parsed_value': 'real'}}},
        returns='bool',
        requires=[],
        ensures={
            # PROVED: nested ANDed / ORed groups to ANY depth (the recursive calls use the callee contracts)
            'truth': ("result == (sem_cond(self.expression, packet) if cls_is(self.expression, 'Condition') else "
                      "(sem_and(self.expression, packet) if cls_is(self.expression, 'Anded') else "
                      "sem_or(self.expression, packet)))", ['__proof__']),
            'denotes': ('result == sem_bexp(self, packet)', ['__proof__']),
            'truth_exact': ('(result is True or result is False) and result == ref_boolexpr(self, packet)', ['__native__']),
        },
        may_raise={'ComparisonError': 'True', 'ValueError': 'True', 'KeyError': 'True', 'TypeError': 'True'},
        reveal=['sem_bexp'],
        modifies=[],
        native={'gen': _gen_boolexpr, 'build': _build_boolexpr},
    ),
    Contract(
        target='xtce.comparisons.BooleanExpression.evaluate._and',
        props=['C06', 'C05', 'C08', 'C01'],
        params={'anded': ('rec', 'Anded')}, captures={'packet': PKT_C06},
        returns='bool',
        hints=['sem_and_def(anded, packet)'],
        loops={
            ('', 0): LoopSpec(invariants={'conditions_so_far':
                                          'forall(lambda k: sem_cond(at(anded.conditions, k), packet), 0, _i)'}),
            ('', 1): LoopSpec(invariants={'all_conditions':
                                          'forall(lambda k: sem_cond(at(anded.conditions, k), packet), 0, len(anded.conditions))',
                                          'ors_so_far': 'forall(lambda k: sem_or(at(anded.ors, k), packet), 0, _i)'}),
        },
        ensures={'truth': 'result == sem_and(anded, packet)'},
        may_raise={'ComparisonError': 'True', 'ValueError': 'True', 'KeyError': 'True', 'TypeError': 'True'},
        modifies=[],
    ),
    Contract(
        target='xtce.comparisons.BooleanExpression.evaluate._or',
        props=['C06', 'C05', 'C08', 'C01'],
        params={'ored': ('rec', 'Ored')}, captures={'packet': PKT_C06},
        returns='bool',
        hints=['sem_or_def(ored, packet)'],
        loops={
            ('', 0): LoopSpec(invariants={'none_so_far':
                                          'forall(lambda k: not sem_cond(at(ored.conditions, k), packet), 0, _i)'}),
            ('', 1): LoopSpec(invariants={'no_condition':
                                          'forall(lambda k: not sem_cond(at(ored.conditions, k), packet), 0, len(ored.conditions))',
                                          'no_and_so_far': 'forall(lambda k: not sem_and(at(ored.ands, k), packet), 0, _i)'}),
        },
        ensures={'truth': 'result == sem_or(ored, packet)'},
        may_raise={'ComparisonError': 'True', 'ValueError': 'True', 'KeyError': 'True', 'TypeError': 'True'},
        modifies=[],
    ),
    Contract(
        target='xtce.comparisons.DiscreteLookup.evaluate',
        props=['C06', 'C07', 'C01'],
        params={'self': ('rec', 'DiscreteLookup'), 'packet': PKT_C06},
        variants={'no_current': {'params': {'current_parsed_value': 'none'}},
                  'current_int': {'params': {'current_parsed_value': 'int'}},
                  'current_float': {'params': {'current_parsed_value': 'real'}}},
        returns=('opt', 'real'),
        requires=[],
        comps={0: {'elem': 'sem_cmp(at(self.match_criteria, j), packet, current_parsed_value)',
                   'may_raise': ['ComparisonError', 'ValueError', 'KeyError']}},
        ensures={
            # PROVED: the lookup value iff ALL criteria hold (a list is a conjunction), None otherwise
            'match': ('implies(forall(lambda j: sem_cmp(at(self.match_criteria, j), packet, current_parsed_value), 0, '
                      'len(self.match_criteria)), result == self.lookup_value)', ['__proof__']),
            'no_match': ('implies(not forall(lambda j: sem_cmp(at(self.match_criteria, j), packet, current_parsed_value), 0, '
                         'len(self.match_criteria)), result is None)', ['__proof__']),
            # the same in terms of the closed term clients quantify over
            'denotes_match': ('implies(dl_match(self, packet, current_parsed_value), result == self.lookup_value)', ['__proof__']),
            'denotes_no_match': ('implies(not dl_match(self, packet, current_parsed_value), result is None)', ['__proof__']),
            'value_exact': ('result == ref_lookup(self, packet, current_parsed_value)', ['__native__']),
        },
        hints=['dl_match_def(self, packet, current_parsed_value)'],
        may_raise={'ComparisonError': 'True', 'ValueError': 'True', 'KeyError': 'True'},
        modifies=[],
        native={'gen': _gen_lookup, 'build': _build_lookup},
    ),
]
