"""Sidecar contracts for space_packet_parser/xtce/parameter_types.py: value derivation on top of the data encodings (C08,
C04, C07).  ParameterType.parse_value is pure delegation: its contract is the encoding's contract with `self` read as
`self.encoding`, generated from the encoding contracts so the two cannot drift apart.  Enumerated and boolean types are
stated from the property: label of the RAW value (ValueError on unlisted values), truthiness of the RAW value, and the
raw_value attribute is the uncalibrated encoded value."""
import re
from pyvc.cdef import Contract
from contracts import encodings as E

ENCS = ['IntegerDataEncoding', 'FloatDataEncoding', 'StringDataEncoding', 'BinaryDataEncoding']
_PT = {'name': 'str', 'encoding': ('rec', ENCS), 'unit': ('opt', 'str')}
SCHEMA = {
    # declared once on the base class (found through the MRO by every parameter type)
    'ParameterType': dict(_PT),
    # enumerations over integer encodings (keys are ints); float- and string-encoded enumerations are covered by the
    # bounded stand-in through whole-packet decoding
    'EnumeratedParameterType': dict(enumeration=('kmap', 'int', 'str')),
}
NATIVE_ENV = E.NATIVE_ENV
_BY_TARGET = {c.target: c for c in E.CONTRACTS}


def _sub(text):
    return re.sub(r'''(?<!["'])\bself\b(?!["'])''', 'self.encoding', text)


def _proof_clauses(d, skip=()):
    """the prover-side clauses of an encoding contract, re-targeted at self.encoding"""
    out = {}
    for k, v in d.items():
        if k in skip:
            continue
        expr, tags = (v if isinstance(v, tuple) else (v, []))
        if '__native__' in tags:
            continue
        out[k] = (_sub(expr), ['__proof__'])
    return out


def _proof_requires(lst):
    out = []
    for v in lst:
        expr, tags = (v if isinstance(v, tuple) else (v, []))
        if '__native__' in tags:
            continue
        out.append((_sub(expr), ['__proof__']))
    return out


def _delegate(target, vname):
    """(requires, ensures, may_raise, packet type) of <encoding>.parse_value[vname] seen through a parameter type"""
    con = _BY_TARGET[target]
    params, requires, ensures, raises, may_raise, returns = con.for_variant(vname)
    v = con.variants.get(vname, {}) if vname else {}
    req = _proof_requires(list(con.requires) + list(v.get('requires', [])))
    ens = _proof_clauses(dict(con.ensures, **v.get('ensures', {})))
    may = {k: ('True', ['__proof__']) for k in con.may_raise}
    return req, ens, may, params['packet'], returns


_NUM = 'xtce.encodings.NumericDataEncoding.parse_value'
_STR = 'xtce.encodings.StringDataEncoding.parse_value'
_BIN = 'xtce.encodings.BinaryDataEncoding.parse_value'
_VARIANT_SOURCES = {'integer': (_NUM, 'integer', 'IntegerDataEncoding'), 'float': (_NUM, 'float', 'FloatDataEncoding'),
                    'string': (_STR, '', 'StringDataEncoding'), 'binary': (_BIN, '', 'BinaryDataEncoding')}


def _variants(self_classes, only=None, extra_ensures=None):
    out = {}
    for vn, (tgt, cv, ecls) in _VARIANT_SOURCES.items():
        if only and vn not in only:
            continue
        req, ens, may, pkt, returns = _delegate(tgt, cv)
        ens = dict(ens)
        if extra_ensures:
            ens.update(extra_ensures(vn))
        out[vn] = {'params': {'self': ('rec', self_classes), 'packet': pkt},
                   'select': f"cls_is(self.encoding, '{ecls}')",
                   'requires': [(f"cls_is(self.encoding, '{ecls}')", ['__proof__'])] + req,
                   'ensures': ens, 'may_raise': may, 'returns': returns}
    return out


PLAIN = ['IntegerParameterType', 'FloatParameterType', 'StringParameterType', 'BinaryParameterType',
         'EnumeratedParameterType', 'BooleanParameterType', 'AbsoluteTimeParameterType', 'RelativeTimeParameterType']
_RAW_INT = ("int_decode(bits(packet.raw_data, old(packet.raw_data.pos), self.encoding.size_in_bits), "
            "self.encoding.size_in_bits, self.encoding.encoding, self.encoding.byte_order)")
_INB = ("(old(packet.raw_data.pos) + self.encoding.size_in_bits <= 8 * len(packet.raw_data) and "
        "(self.encoding.byte_order != 'leastSignificantByteFirst' or self.encoding.size_in_bits % 8 == 0))")


def _enum_clauses(vn):
    req, ens, may, pkt, returns = _delegate(_NUM, 'integer')
    keep = {k: v for k, v in ens.items() if k in ('cursor',)}
    keep.update({
        # C08 (PROVED): the label listed for the RAW value (calibrators on the encoding play no part), and the raw_value
        # attribute is that raw value
        'label': ('result.raw_value in self.enumeration and result == self.enumeration[result.raw_value] and '
                  'cls_is(result, "StrParameter")', ['__proof__']),
        'raw_is_field': (f'implies({_INB}, result.raw_value == {_RAW_INT})', ['__proof__']),
    })
    return keep


def _bool_clauses(vn):
    src = _VARIANT_SOURCES[vn]
    req, ens, may, pkt, returns = _delegate(src[0], src[1])
    keep = {k: v for k, v in ens.items() if k in ('cursor', 'raw_is_field', 'raw_length', 'raw_value', 'nonneg')}
    truth = {'integer': 'result.raw_value != 0', 'float': 'result.raw_value != 0',
             'string': 'len(result.raw_value) != 0', 'binary': 'len(result.raw_value) != 0'}[vn]
    # C08 (PROVED): a boolean parameter is the truthiness of the RAW value
    keep['truthiness'] = (f'result == ({truth}) and cls_is(result, "BoolParameter")', ['__proof__'])
    return keep


def _enum_variant():
    req, ens, may, pkt, returns = _delegate(_NUM, 'integer')
    return {'integer': {'params': {'self': ('rec', 'EnumeratedParameterType'), 'packet': pkt},
                        'select': "cls_is(self.encoding, 'IntegerDataEncoding')",
                        'requires': [("cls_is(self.encoding, 'IntegerDataEncoding')", ['__proof__'])] + req,
                        'ensures': _enum_clauses('integer'),
                        'may_raise': dict(may, ValueError=('True', ['__proof__'])),
                        'returns': ('pval', [('StrParameter', 'int')])}}


def _bool_variants():
    out = {}
    for vn, (tgt, cv, ecls) in _VARIANT_SOURCES.items():
        req, ens, may, pkt, returns = _delegate(tgt, cv)
        out[vn] = {'params': {'self': ('rec', 'BooleanParameterType'), 'packet': pkt},
                   'select': f"cls_is(self.encoding, '{ecls}')",
                   'requires': [(f"cls_is(self.encoding, '{ecls}')", ['__proof__'])] + req,
                   'ensures': _bool_clauses(vn), 'may_raise': may,
                   'returns': ('pval', [('BoolParameter', {'integer': 'int', 'float': 'real', 'string': 'bytes',
                                                           'binary': 'bytes'}[vn])])}
    return out


CONTRACTS = [
    Contract(
        target='xtce.parameter_types.ParameterType.parse_value',
        props=['C08', 'C04', 'C07', 'C14', 'C01'],
        params={}, variants=_variants(PLAIN),
        requires=[], ensures={},
        modifies=['packet.raw_data.pos'],
        note='pure delegation to the data encoding: clauses generated from the encoding contracts (self -> self.encoding)',
    ),
    Contract(
        target='xtce.parameter_types.EnumeratedParameterType.parse_value',
        props=['C08', 'C01'],
        params={}, variants=_enum_variant(),
        requires=[], ensures={},
        # failing on unlisted values: ValueError exactly when the raw value is not a key (stated on the exit state)
        ensures_raise={'ValueError': {}},
        modifies=['packet.raw_data.pos'],
    ),
    Contract(
        target='xtce.parameter_types.BooleanParameterType.parse_value',
        props=['C08', 'C01'],
        params={}, variants=_bool_variants(),
        requires=[], ensures={},
        modifies=['packet.raw_data.pos'],
    ),
]
