"""Random XTCE definitions assembled from objects, and packets for them (native harness only)."""
import json

HDR = [('VERSION', 3), ('TYPE', 1), ('SEC_HDR_FLG', 1), ('PKT_APID', 11), ('SEQ_FLGS', 2), ('SRC_SEQ_CTR', 14),
       ('PKT_LEN', 16)]


def gen_definition(rng, rich=True, styles=None, nested_criteria=False):
    """recipe of a definition: CCSDS header root, 2..4 children selected by restriction criteria (APID equality,
    ranges that may overlap, BooleanExpression), optional grandchildren selected on a decoded MODE field, nested
    container references, all parameter kinds"""
    apid_name = rng.choice(['PKT_APID', 'PKT_APID', 'APID'])
    hdr = [(apid_name if n == 'PKT_APID' else n, w) for n, w in HDR]
    ptypes, params, containers = [], [], []
    for n, w in hdr:
        ptypes.append({'name': n + '_T', 'kind': 'int', 'w': w, 'enc': 'unsigned', 'order': 'mostSignificantByteFirst'})
        params.append({'name': n, 'type': n + '_T'})
    containers.append({'name': 'CCSDSPacket', 'entries': [n for n, _ in hdr], 'base': None, 'criteria': None,
                       'abstract': rng.random() < 0.8})
    fld = [0]

    def new_field(prefix):
        fld[0] += 1
        kind = rng.choice(['int', 'int', 'sint', 'float', 'enum', 'bool', 'str', 'bin', 'cal']) if rich else 'int'
        name = f"{prefix}_F{fld[0]}"
        t = {'name': name + '_T', 'kind': kind}
        if kind in ('int', 'sint', 'cal'):
            t.update(w=rng.choice([8, 8, 16, 4, 12, 32]), enc='unsigned' if kind != 'sint' else rng.choice(['signed', 'twosComplement', 'twosCompliment']),
                     order='mostSignificantByteFirst')
            if kind == 'cal':
                if rng.random() < 0.6:
                    t['default'] = ['poly', [[rng.choice([1.5, -2.0, 10.0]), 0], [rng.choice([0.5, 2.0]), 1]]]
                    if rng.random() < 0.35:
                        # a spline (points over the whole raw range, so that every raw value calibrates)
                        top = float(2 ** t['w'])
                        t['default'] = ['spline', [[0.0, rng.choice([0.0, 1.5])], [top / 2, rng.choice([10.0, -3.25])],
                                                   [top, rng.choice([20.0, 7.5])]], rng.choice([0, 1]), True]
                if rng.random() < 0.6:
                    # context calibrators whose criteria overlap (the FIRST matching one applies)
                    t['ctx'] = [[[['MODE', rng.choice(['>=', '==', '<=']), str(rng.randint(0, 2)), rng.choice([True, False])]],
                                 ['poly', [[float(10 ** (j + 1)), 0], [1.0, 1]]]] for j in range(rng.randint(1, 3))]
            t['kind'] = 'int'
        elif kind == 'float':
            t.update(w=rng.choice([32, 64, 16]), enc='IEEE754', order=rng.choice(['mostSignificantByteFirst', 'leastSignificantByteFirst']))
        elif kind == 'enum':
            t.update(w=8, enum={str(v): f"L{v}" for v in rng.sample(range(0, 256), 200)})
        elif kind == 'bool':
            t.update(w=rng.choice([1, 8]))
            if rng.random() < 0.5:
                # a calibrator on the encoding must not influence the boolean (truthiness of the RAW value)
                t['default'] = ['poly', [[rng.choice([1.5, -1.0, 4.0]), 0], [rng.choice([2.0, -1.0]), 1]]]
        elif kind == 'str':
            t.update(bits=rng.choice([8, 16, 24]), encoding='US-ASCII')
        elif kind == 'bin':
            t.update(bits=rng.choice([8, 12, 16]))
        if rich and rng.random() < 0.25 and kind != 'str':
            t['unit'] = rng.choice(['V', 'degC', 'counts'])
        ptypes.append(t)
        params.append({'name': name, 'type': t['name']})
        return name
    # MODE field used by grandchildren criteria
    ptypes.append({'name': 'MODE_T', 'kind': 'int', 'w': 8, 'enc': 'unsigned', 'order': 'mostSignificantByteFirst'})
    params.append({'name': 'MODE', 'type': 'MODE_T'})
    # a nested container used by reference
    sub_fields = [new_field('SUB') for _ in range(rng.randint(1, 2))]
    if nested_criteria and rng.random() < 0.5:
        # the container used by reference is ALSO an inheritor of the root with criteria that never hold: a nested
        # reference is expanded in place whatever the nested container's own restriction criteria say
        containers.append({'name': 'SUB', 'entries': sub_fields, 'base': 'CCSDSPacket',
                           'criteria': [['cmp', apid_name, '==', '2040', True]], 'abstract': False})
    else:
        containers.append({'name': 'SUB', 'entries': sub_fields, 'base': None, 'criteria': None, 'abstract': False})
    nchild = rng.randint(2, 4)
    apids = rng.sample(range(1, 40), nchild)
    for i in range(nchild):
        cname = f"C{i}"
        style = styles[i % len(styles)] if styles else rng.choice(['eq', 'eq', 'range', 'bool', 'raw', 'eq+type', 'bool2'])
        if style == 'eq':
            crit = [['cmp', apid_name, '==', str(apids[i]), True]]
        elif style == 'eq0':
            # every child of this style selects the SAME APID (the first one) ...
            crit = [['cmp', apid_name, '==', str(apids[0]), True]]
        elif style == 'flag':
            # ... and this one a header flag: packets of that APID with the flag set match two children (ambiguous)
            crit = [['cmp', 'SEC_HDR_FLG', '==', '1', True]]
        elif style == 'bool2':
            # a two-parameter Condition with different calibrated/raw selectors on its two sides
            crit = [['bool', {'k': 'and', 'c': [[apid_name, '==', str(apids[i])],
                                                ['SEQ_FLGS', rng.choice(['<=', '>=', '==']), 'TYPE', rng.choice([True, False]), rng.choice([True, False])]],
                              's': []}]]
        elif style == 'eq+type':
            # the same APID carries recognizable (TYPE 0) and unrecognizable (TYPE 1) packets
            crit = [['cmp', apid_name, '==', str(apids[i]), True], ['cmp', 'TYPE', '==', '0', True]]
        elif style == 'raw':
            crit = [['cmp', apid_name, '==', str(apids[i]), False], ['cmp', 'VERSION', 'geq', '0', True]]
        elif style == 'range':
            lo = apids[i]
            crit = [['cmp', apid_name, '>=', str(lo), True], ['cmp', apid_name, '<=', str(lo + rng.choice([0, 0, 3])), True]]
        else:
            crit = [['bool', {'k': 'or', 'c': [[apid_name, '==', str(apids[i])]],
                              's': [{'k': 'and', 'c': [[apid_name, '==', str(apids[i] + 100)], ['TYPE', '==', '1']], 's': []}]}]]
        entries = ['MODE'] + [new_field(cname) for _ in range(rng.randint(0, 3))]
        if rng.random() < 0.4:
            entries.insert(rng.randint(1, len(entries)), {'c': 'SUB'})
        has_grand = rng.random() < 0.4
        if rich and not has_grand and rng.random() < 0.35:
            # a trailing field of MODE bits (width 0 when MODE == 0): with a packet cut to the consumed length the entry
            # list still has a zero-width entry to decode after the last bit; other MODEs leave 1..7 unconsumed bits
            tname = f"{cname}_TAIL"
            ptypes.append({'name': tname + '_T', 'kind': 'bin', 'ref': 'MODE', 'use_cal': False})
            params.append({'name': tname, 'type': tname + '_T'})
            if rng.random() < 0.5:
                containers.append({'name': tname + '_BOX', 'entries': [tname], 'base': None, 'criteria': None, 'abstract': False})
                entries.append({'c': tname + '_BOX'})
            else:
                entries.append(tname)
        containers.append({'name': cname, 'entries': entries, 'base': 'CCSDSPacket', 'criteria': crit,
                           'abstract': has_grand and rng.random() < 0.6})
        if has_grand:
            for g in range(rng.randint(1, 2)):
                gcrit = [['cmp', 'MODE', rng.choice(['==', '==', '<', 'geq']), str(rng.randint(0, 2)), rng.choice([True, False])]]
                containers.append({'name': f"{cname}_G{g}", 'entries': [new_field(f"{cname}G{g}") for _ in range(rng.randint(1, 2))],
                                   'base': cname, 'criteria': gcrit, 'abstract': False})
    return {'ptypes': ptypes, 'params': params, 'containers': containers, 'root': 'CCSDSPacket', 'apids': apids,
            'apid_name': apid_name}


def build_definition(r):
    from space_packet_parser.xtce import (calibrators as cal, comparisons as cmp, containers as con, definitions as dfn,
                                          encodings as enc, parameter_types as pt, parameters as prm)
    types = {}
    for t in r['ptypes']:
        k = t['kind']
        def mk_cal(spec):
            if spec is None:
                return None
            if spec[0] == 'poly':
                return cal.PolynomialCalibrator([cal.PolynomialCoefficient(coefficient=float(a), exponent=n) for a, n in spec[1]])
            return cal.SplineCalibrator([cal.SplinePoint(raw=float(a), calibrated=float(b)) for a, b in spec[1]],
                                        order=spec[2], extrapolate=spec[3])

        def mk_ctx(specs):
            if not specs:
                return None
            return [cal.ContextCalibrator([cmp.Comparison(lit, ref, operator=op, use_calibrated_value=uc)
                                           for ref, op, lit, uc in crit], mk_cal(c)) for crit, c in specs]
        if k == 'int':
            e = enc.IntegerDataEncoding(t['w'], t['enc'], byte_order=t['order'], default_calibrator=mk_cal(t.get('default')),
                                        context_calibrators=mk_ctx(t.get('ctx')))
            types[t['name']] = pt.IntegerParameterType(t['name'], e, unit=t.get('unit'))
        elif k == 'float':
            types[t['name']] = pt.FloatParameterType(t['name'], enc.FloatDataEncoding(t['w'], encoding=t['enc'], byte_order=t['order']),
                                                     unit=t.get('unit'))
        elif k == 'enum':
            e = enc.IntegerDataEncoding(t['w'], 'unsigned')
            types[t['name']] = pt.EnumeratedParameterType(t['name'], e, enumeration={int(a): b for a, b in t['enum'].items()},
                                                          unit=t.get('unit'))
        elif k == 'bool':
            types[t['name']] = pt.BooleanParameterType(t['name'], enc.IntegerDataEncoding(
                t['w'], 'unsigned', default_calibrator=mk_cal(t.get('default'))), unit=t.get('unit'))
        elif k == 'str':
            if t.get('ref'):
                adj = t.get('adj')
                e = enc.StringDataEncoding(dynamic_length_reference=t['ref'], use_calibrated_value=t.get('use_cal', True),
                                           encoding=t['encoding'],
                                           length_linear_adjuster=(lambda x, a=adj: int((a[0] or 0) * x + (a[1] or 0))) if adj else None)
            else:
                e = enc.StringDataEncoding(fixed_raw_length=t['bits'], encoding=t['encoding'])
            types[t['name']] = pt.StringParameterType(t['name'], e, unit=t.get('unit'))
        elif k == 'time':
            e = enc.IntegerDataEncoding(t['w'], 'unsigned', default_calibrator=mk_cal(t.get('default')))
            cls_ = pt.AbsoluteTimeParameterType if t.get('absolute', True) else pt.RelativeTimeParameterType
            types[t['name']] = cls_(t['name'], e, unit=t.get('unit'), epoch=t.get('epoch'), offset_from=t.get('offset_from'))
        elif k == 'str2':
            lk = None
            if t.get('lookups'):
                lk = [cmp.DiscreteLookup([cmp.Comparison(lit, ref, operator=op, use_calibrated_value=uc)
                                          for ref, op, lit, uc in crit], float(v)) for crit, v in t['lookups']]
            e = enc.StringDataEncoding(encoding=t['encoding'], byte_order=t.get('byte_order'),
                                       fixed_raw_length=t.get('bits'), discrete_lookup_length=lk,
                                       termination_character=t.get('term'), leading_length_size=t.get('lead'))
            types[t['name']] = pt.StringParameterType(t['name'], e, unit=t.get('unit'))
        elif k == 'bin2':
            lk = [cmp.DiscreteLookup([cmp.Comparison(lit, ref, operator=op, use_calibrated_value=uc)
                                      for ref, op, lit, uc in crit], float(v)) for crit, v in t['lookups']]
            types[t['name']] = pt.BinaryParameterType(t['name'], enc.BinaryDataEncoding(size_discrete_lookup_list=lk))
        elif k == 'bin':
            if t.get('ref'):
                adj = t.get('adj')
                e = enc.BinaryDataEncoding(size_reference_parameter=t['ref'], use_calibrated_value=t.get('use_cal', True),
                                           linear_adjuster=(lambda x, a=adj: int((a[0] or 0) * x + (a[1] or 0))) if adj else None)
            else:
                e = enc.BinaryDataEncoding(fixed_size_in_bits=t['bits'])
            types[t['name']] = pt.BinaryParameterType(t['name'], e, unit=t.get('unit'))
    params = {p['name']: prm.Parameter(p['name'], types[p['type']]) for p in r['params']}

    def mk_tree(t):
        conds = []
        for c in t['c']:
            if len(c) == 3:
                conds.append(cmp.Condition(c[0], c[1], right_value=c[2], right_use_calibrated_value=False))
            else:   # [left, op, right_param, left_use_calibrated, right_use_calibrated]
                conds.append(cmp.Condition(c[0], c[1], right_param=c[2], left_use_calibrated_value=c[3],
                                           right_use_calibrated_value=c[4]))
        subs = [mk_tree(s) for s in t['s']]
        return cmp.Anded(conds, subs) if t['k'] == 'and' else cmp.Ored(conds, subs)

    def mk_crit(c):
        if c[0] == 'cmp':
            return cmp.Comparison(c[3], c[1], operator=c[2], use_calibrated_value=c[4])
        return cmp.BooleanExpression(mk_tree(c[1]))
    built = {}
    todo = list(r['containers'])
    progress = True
    order = {c['name']: i for i, c in enumerate(r['containers'])}
    while todo and progress:
        progress = False
        for c in list(todo):
            if all(e['c'] in built for e in c['entries'] if isinstance(e, dict)):
                todo.remove(c)
                progress = True
                _build_container(c, built, params, con, mk_crit)
    if todo:
        raise ValueError("cyclic nesting in recipe")
    built = {k: built[k] for k in sorted(built, key=order.get)}
    return _finish(built, r, dfn)


def _build_container(c, built, params, con, mk_crit):
    if True:
        entries = [built[e['c']] if isinstance(e, dict) else params[e] for e in c['entries']]
        built[c['name']] = con.SequenceContainer(
            name=c['name'], entry_list=entries, base_container_name=c['base'],
            restriction_criteria=[mk_crit(x) for x in c['criteria']] if c['criteria'] else None, abstract=c['abstract'],
            long_description=c.get('long_description'))


def _finish(built, r, dfn):
    for c in built.values():
        if c.base_container_name:
            built[c.base_container_name].inheritors.append(c.name)
    return dfn.XtcePacketDefinition(container_set=list(built.values()), root_container_name=r['root'],
                                    date=r.get('date'), space_system_name=r.get('space_system_name'))


def exact_packet(rng, r, defn, **kw):
    """a packet for recipe r cut to the whole bytes its definition consumes (reference decoder): exactly consumed when the
    consumed width is a multiple of 8, else 1..7 bits too long; unrecognizable packets are returned with a random length"""
    from specs.refsem import ref_parse_outcome
    pkt = gen_packet(rng, r, body_len=90, **kw)
    try:
        st, p = ref_parse_outcome(defn, pkt)
    except Exception:
        st, p = 'error', None
    n = max(7, (p.pos + 7) // 8) if st == 'ok' else 6 + rng.randint(1, 30)
    return pkt[:4] + (n - 7).to_bytes(2, 'big') + pkt[6:n]


def gen_packet(rng, r, body_len=None, apid=None, seqflags=3, seqcount=None):
    """a CCSDS packet for definition recipe r: APID one of the children's (or an unknown / ambiguous one), MODE 0..3,
    random body"""
    apids = r.get('apids', [1])
    if apid is None:
        apid = rng.choice(apids + apids + [rng.choice(apids) + 1, 1000])
    body_len = rng.randint(24, 40) if body_len is None else body_len
    body = bytes([rng.randint(0, 3)]) + bytes(rng.getrandbits(8) for _ in range(body_len - 1)) if body_len > 0 else b''
    if rng.random() < 0.3 and body_len > 0:
        body = bytes(body_len)
    c = rng.randint(0, 16383) if seqcount is None else seqcount
    word = (rng.randint(0, 7) << 45) | (rng.randint(0, 1) << 44) | (rng.randint(0, 1) << 43) | (apid << 32) | \
        (seqflags << 30) | (c << 16) | ((len(body) - 1) & 0xFFFF)
    return word.to_bytes(6, 'big') + body
