"""Sidecar contracts for space_packet_parser/xarr.py (C18).  numpy / xarray are external (E8)."""
from pyvc.cdef import Contract
import specs.refsem as R

SCHEMA = {}
NATIVE_ENV = {k: getattr(R, k) for k in dir(R) if not k.startswith('_')}
PENDING = ("contract evaluated by the bounded native stand-in only: the dataset is built by numpy/xarray (E8); the dtype "
           "selection functions are small but their correctness is relative to numpy's representable sets")


def _flat_definition(rng):
    """fixed per-APID layouts covering every parameter type and encoding"""
    from contracts._defgen import HDR
    ptypes, params, containers = [], [], []
    for n, w in HDR:
        ptypes.append({'name': n + '_T', 'kind': 'int', 'w': w, 'enc': 'unsigned', 'order': 'mostSignificantByteFirst'})
        params.append({'name': n, 'type': n + '_T'})
    containers.append({'name': 'CCSDSPacket', 'entries': [n for n, _ in HDR], 'base': None, 'criteria': None, 'abstract': True})
    apids = rng.sample(range(1, 60), rng.randint(1, 3))
    pool = [
        ('U8', {'kind': 'int', 'w': 8, 'enc': 'unsigned'}), ('U16', {'kind': 'int', 'w': 16, 'enc': 'unsigned'}),
        ('U32', {'kind': 'int', 'w': 32, 'enc': 'unsigned'}), ('U64', {'kind': 'int', 'w': 64, 'enc': 'unsigned'}),
        ('U12', {'kind': 'int', 'w': 12, 'enc': 'unsigned'}), ('U4', {'kind': 'int', 'w': 4, 'enc': 'unsigned'}),
        ('S8', {'kind': 'int', 'w': 8, 'enc': 'signed'}), ('S16', {'kind': 'int', 'w': 16, 'enc': 'twosComplement'}),
        ('S32', {'kind': 'int', 'w': 32, 'enc': 'signed'}), ('S64', {'kind': 'int', 'w': 64, 'enc': 'twosComplement'}),
        ('F32', {'kind': 'float', 'w': 32, 'enc': 'IEEE754'}), ('F64', {'kind': 'float', 'w': 64, 'enc': 'IEEE754'}),
        ('F16', {'kind': 'float', 'w': 16, 'enc': 'IEEE754'}),
        ('CAL', {'kind': 'int', 'w': 16, 'enc': 'unsigned', 'default': ['poly', [[0.25, 0], [0.5, 1]]]}),
        ('CTX', {'kind': 'int', 'w': 16, 'enc': 'unsigned',
                 'ctx': [[[['VERSION', '>=', '0', True]], ['poly', [[0.25, 0], [0.5, 1]]]]]}),
        ('EN', {'kind': 'enum', 'w': 8, 'enum': {str(v): f"LABEL{v}" for v in range(256)}}),
        ('BO', {'kind': 'bool', 'w': 8}),
        ('ST', {'kind': 'str', 'bits': 24, 'encoding': 'ISO-8859-1'}),
        ('BI', {'kind': 'bin', 'bits': 16}),
    ]
    for a in apids:
        chosen = rng.sample(pool, rng.randint(3, 8))
        # keep the layout byte aligned where strings need it: order is irrelevant for the check
        entries = []
        for nm, t in chosen:
            tname = f"A{a}_{nm}_T"
            t = dict(t, name=tname, order='mostSignificantByteFirst')
            ptypes.append(t)
            params.append({'name': f"A{a}_{nm}", 'type': tname})
            entries.append(f"A{a}_{nm}")
        containers.append({'name': f"P{a}", 'entries': entries, 'base': 'CCSDSPacket',
                           'criteria': [['cmp', 'PKT_APID', '==', str(a), True]], 'abstract': False})
    return {'ptypes': ptypes, 'params': params, 'containers': containers, 'root': 'CCSDSPacket', 'apids': apids,
            'apid_name': 'PKT_APID'}


def _body_bits(d, apid):
    c = [c for c in d['containers'] if c['name'] == f"P{apid}"][0]
    types = {t['name']: t for t in d['ptypes']}
    ptype = {p['name']: p['type'] for p in d['params']}
    return sum(types[ptype[e]].get('w', types[ptype[e]].get('bits')) for e in c['entries'])


def _gen_dataset(rng, tier, variant):
    """flat per-APID layouts over every parameter type/encoding (u/int 4..64 bits, float 16/32/64, calibrated and
    context-calibrated ints, enumerations, booleans, fixed strings and binaries); 1..3 APIDs interleaved over 1..2
    files; bodies random, all-zero and all-ones (value extremes); raw and derived mode"""
    for _ in range(40 if tier == 'quick' else 500):
        d = _flat_definition(rng)
        files = []
        for f in range(rng.randint(1, 2)):
            pk = []
            for _ in range(rng.randint(1, 6)):
                a = rng.choice(d['apids'])
                nbits = _body_bits(d, a)
                nbytes = (nbits + 7) // 8
                style = rng.choice(['rand', 'rand', 'zeros', 'ones', 'ascii'])
                pk.append([a, style, rng.randint(0, 10 ** 6), nbytes])
            files.append(pk)
        yield {'def': d, 'files': files, 'raw': rng.choice([True, False])}


def _mk_body(style, seed, nbytes):
    import random
    rr = random.Random(seed)
    if style == 'zeros':
        return bytes(nbytes)
    if style == 'ones':
        return b'\xff' * nbytes
    if style == 'ascii':
        return bytes(rr.choice(b'ABCxyz019 ') for _ in range(nbytes))
    return bytes(rr.getrandbits(8) for _ in range(nbytes))


def _run_dataset(fn, args):
    import warnings
    with warnings.catch_warnings():
        warnings.simplefilter('ignore')
        return fn(args['paths'], args['definition'], use_raw_values=args['raw'])


def _build_dataset(r):
    def make():
        import os
        import random
        import tempfile
        from contracts._defgen import build_definition
        d = tempfile.mkdtemp(prefix='verif_xarr_')
        paths, raws = [], []
        # sequence counters: consecutive from a start near the 14-bit roll-over, or arbitrary (repeats, out of order) -
        # rows follow STREAM order, whatever the counters say
        rr0 = random.Random(r['files'][0][0][2] if r['files'] and r['files'][0] else 0)
        cnt = rr0.choice([0, 16380, 16383, 5])
        arbitrary = rr0.random() < 0.4
        for i, pk in enumerate(r['files']):
            p = os.path.join(d, f"f{i}.bin")
            blob = b''
            for a, style, seed, nbytes in pk:
                body = _mk_body(style, seed, nbytes)
                word = (a << 32) | (3 << 30) | ((cnt % 16384) << 16) | (len(body) - 1)
                raw = word.to_bytes(6, 'big') + body
                cnt = rr0.randint(0, 16383) if arbitrary else cnt + 1
                blob += raw
                raws.append(raw)
            with open(p, 'wb') as fh:
                fh.write(blob)
            paths.append(p)
        return {'paths': paths, 'definition': build_definition(r['def']), 'raw': r['raw'], 'raws': raws}
    return {'make': make, 'invoke': _run_dataset}


def expected_table(defn, raws, raw_mode):
    """per APID: list of rows (dict name -> expected built-in value) in stream order"""
    out = {}
    for raw in raws:
        kind, pkt = R.ref_parse_outcome(defn, raw)
        assert kind == 'ok', kind
        apid = R.ref_bits(raw, 5, 11)
        row = {k: (v.raw_value if raw_mode else R.builtin_of(v)) for k, v in pkt.items()}
        out.setdefault(apid, []).append(row)
    return out


def cell_equal(cell, exp):
    import numpy as np
    if isinstance(exp, bool):
        return bool(cell) == exp
    if isinstance(exp, int):
        try:
            return int(cell) == exp and (not isinstance(cell, (float, np.floating)) or float(cell) == exp)
        except (ValueError, TypeError):
            return False
    if isinstance(exp, float):
        return R.same_float(float(cell), exp)
    if isinstance(exp, str):
        return str(cell) == exp
    if isinstance(exp, bytes):
        return bytes(cell) == exp
    return False


def _nul_tail(v):
    return isinstance(v, (str, bytes)) and len(v) > 0 and v[-1] in ('\x00', 0)


def dataset_matches(result, defn, raws, raw_mode, nul_cells=False):
    """nul_cells=False: every cell except text/bytes values ending in NUL;  True: exactly those cells"""
    exp = expected_table(defn, raws, raw_mode)
    if sorted(result.keys()) != sorted(exp.keys()):
        return False
    for apid, rows in exp.items():
        ds = result[apid]
        if sorted(ds.data_vars) != sorted(rows[0].keys()):
            return False
        for name in rows[0]:
            col = ds[name].values
            if len(col) != len(rows):
                return False
            for i, row in enumerate(rows):
                if _nul_tail(row[name]) != nul_cells:
                    continue
                if not cell_equal(col[i], row[name]):
                    return False
    return True


NATIVE_ENV.update(dataset_matches=dataset_matches)

FITS_INT = ' or '.join(
    f"(result == '{'u' if u else ''}int{w}' and data_encoding.size_in_bits <= {w} and "
    f"{'' if u else 'not '}(data_encoding.encoding == 'unsigned'))"
    for u in (True, False) for w in (8, 16, 32, 64))


def _gen_dtype(rng, tier, variant):
    """every encoding class; integer widths 1..64 x {unsigned, signed, twosComplement}; float sizes 16/32/64"""
    for w in range(1, 65):
        for e in ('unsigned', 'signed', 'twosComplement'):
            yield {'k': 'int', 'w': w, 'e': e}
    for w in (16, 32, 64):
        yield {'k': 'float', 'w': w}
    yield {'k': 'bin'}
    yield {'k': 'str'}


def _build_dtype(r):
    def make():
        from space_packet_parser.xtce import encodings as e
        if r['k'] == 'int':
            return {'data_encoding': e.IntegerDataEncoding(r['w'], r['e'])}
        if r['k'] == 'float':
            return {'data_encoding': e.FloatDataEncoding(r['w'])}
        if r['k'] == 'bin':
            return {'data_encoding': e.BinaryDataEncoding(fixed_size_in_bits=8)}
        return {'data_encoding': e.StringDataEncoding(fixed_raw_length=8)}
    return {'make': make}


CONTRACTS = [
    Contract(
        target='xarr._min_dtype_for_encoding',
        props=['C18'],
        params={'data_encoding': ('rec', ['IntegerDataEncoding', 'FloatDataEncoding', 'BinaryDataEncoding',
                                          'StringDataEncoding'])},
        returns='str',
        # numpy has no integer type wider than 64 bits (E8)
        requires=["not cls_is(data_encoding, 'IntegerDataEncoding') or "
                  "(1 <= data_encoding.size_in_bits and data_encoding.size_in_bits <= 64)"],
        ensures={
            # the chosen dtype can represent every raw value of the encoding (E8: uintK = [0,2^K), intK two's complement,
            # float32 holds binary16/32, float64 holds all three)
            'int_fits': f"implies(cls_is(data_encoding, 'IntegerDataEncoding'), {FITS_INT})",
            'float_fits': ("implies(cls_is(data_encoding, 'FloatDataEncoding'), result == 'float64' or "
                           "(result == 'float32' and data_encoding.size_in_bits <= 32))"),
            'bytes': ("implies(cls_is(data_encoding, 'BinaryDataEncoding') or cls_is(data_encoding, 'StringDataEncoding'), "
                      "result == 'bytes')"),
        },
        modifies=[],
        native={'gen': _gen_dtype, 'build': _build_dtype},
    ),
    Contract(
        target='xarr.create_dataset',
        props=['C18'],
        params={}, native_only=PENDING,
        requires=[],
        ensures={
            # one row per packet of the APID in stream order (files in the order given), one variable per parameter,
            # every cell equal to the parsed (or raw) value: no overflow, wrap-around, rounding, truncation, stripping
            'cells': 'dataset_matches(result, definition, raws, raw)',
            # text / bytes values that END in a NUL character (see known_findings.json: numpy's fixed-width S/U dtypes)
            'cells_trailing_nul': 'dataset_matches(result, definition, raws, raw, nul_cells=True)',
        },
        modifies=[],
        native={'gen': _gen_dataset, 'build': _build_dataset},
    ),
]
