"""Ghost client programs: lemmas over contracts, written as ordinary Python.

The prover executes them symbolically with every call into the repository replaced by the callee's CONTRACT (never its
body), and every `assert cond, "label"` becomes a named obligation `ghost.<fn>:assert:<label>`.  The native harness
runs the same text against the real code.  They contain no repository logic of their own."""
from space_packet_parser.packets import RawPacketData, ccsds_generator, create_ccsds_packet
from space_packet_parser.xtce.encodings import FloatDataEncoding, IntegerDataEncoding, BinaryDataEncoding
from specs.oracles import *  # noqa: F401,F403  (spec functions may be used in assertions)


def c13_roundtrip(data, version_number, type, secondary_header_flag, apid, sequence_flags, sequence_count):
    """C13: accessors applied to a constructed packet return exactly the values given."""
    pkt = create_ccsds_packet(data, version_number=version_number, type=type,
                              secondary_header_flag=secondary_header_flag, apid=apid,
                              sequence_flags=sequence_flags, sequence_count=sequence_count)
    # calculation steps: the 48-bit header word divided at each field boundary (each is one division by a constant)
    H = be(pkt[0:6])
    assert H // 2**45 == version_number, "calc_div45"
    assert H // 2**44 == version_number * 2 + type, "calc_div44"
    assert H // 2**43 == version_number * 4 + type * 2 + secondary_header_flag, "calc_div43"
    assert H // 2**32 == (version_number * 4 + type * 2 + secondary_header_flag) * 2**11 + apid, "calc_div32"
    assert H // 2**30 == ((version_number * 4 + type * 2 + secondary_header_flag) * 2**11 + apid) * 4 + sequence_flags, \
        "calc_div30"
    assert H // 2**16 == (((version_number * 4 + type * 2 + secondary_header_flag) * 2**11 + apid) * 4
                          + sequence_flags) * 2**14 + sequence_count, "calc_div16"
    assert pkt.version_number == version_number, "version_number"
    assert pkt.type == type, "type"
    assert pkt.secondary_header_flag == secondary_header_flag, "secondary_header_flag"
    assert pkt.apid == apid, "apid"
    assert pkt.sequence_flags == sequence_flags, "sequence_flags"
    assert pkt.sequence_count == sequence_count, "sequence_count"
    assert pkt.data_length == len(data) - 1, "data_length"
    hv = pkt.header_values
    assert hv == (version_number, type, secondary_header_flag, apid, sequence_flags, sequence_count, len(data) - 1), \
        "header_values"
    assert len(pkt) == 6 + len(data), "total_length"
    return pkt


# ---- C20 (bounded only: the CPython object model is outside the prover's reach, E10) --------------------------------
def _same(a, b):
    """same built-in value, NaN-aware and sign-of-zero-aware"""
    return type(a) is type(b) and repr(a) == repr(b)


def c20_value_behaviour(cls, value, raw_value, others):
    import copy
    import pickle
    base = cls.__mro__[2]
    v = cls(value, raw_value)
    b = base(value)
    assert isinstance(v, base), "isinstance_builtin"
    assert _same(base(v), b), "builtin_value"
    if b == b:
        assert v == b and b == v and hash(v) == hash(b), "eq_hash"
    else:
        assert v != v, "nan_ne"
    for o in others:
        for op in ('__lt__', '__le__', '__gt__', '__ge__', '__eq__', '__ne__'):
            assert getattr(v, op)(o) == getattr(b, op)(o), "ordering"
        try:
            expected = b + o
        except TypeError:
            expected = TypeError
        try:
            got = v + o
        except TypeError:
            got = TypeError
        assert expected is got or _same(got, expected), "arithmetic"
    if cls.__name__ != 'BoolParameter':
        assert format(v) == format(b) and str(v) == str(b) and repr(v) == repr(b), "format"
    else:
        assert repr(v) == repr(bool(b)), "bool_repr"
    expect_raw = value if raw_value is None else raw_value
    assert _same(v.raw_value, expect_raw) or (v.raw_value is expect_raw), "raw_value"
    for name, f in (('copy', copy.copy), ('deepcopy', copy.deepcopy),
                    ('pickle', lambda x: pickle.loads(pickle.dumps(x)))):
        w = f(v)
        assert type(w) is type(v), name + "_type"
        assert _same(base(w), base(v)), name + "_value"
        assert _same(w.raw_value, v.raw_value), name + "_raw_value"
    return v


def c20_packet_copy(items, raw, pos):
    import copy
    import pickle
    from space_packet_parser.packets import CCSDSPacket
    p = CCSDSPacket(raw_data=raw)
    p.raw_data.pos = pos
    for k, val in items:
        p[k] = val
    for name, f in (('copy', copy.copy), ('deepcopy', copy.deepcopy),
                    ('pickle', lambda x: pickle.loads(pickle.dumps(x)))):
        q = f(p)
        assert type(q) is CCSDSPacket, name + "_type"
        assert list(q.keys()) == list(p.keys()), name + "_order"
        for k in p:
            assert type(q[k]) is type(p[k]) and _same(q[k].raw_value, p[k].raw_value), name + "_items"
        assert bytes(q.raw_data) == bytes(p.raw_data) and type(q.raw_data) is type(p.raw_data), name + "_raw_bytes"
        assert q.raw_data.pos == pos, name + "_cursor"
        assert q.header == p.header and q.user_data == p.user_data, name + "_views"
    return p


# ---- C02: exactness on well-formed streams, as a lemma over the framer's CONTRACT ------------------------------------
def c02_exact(binary_data, skip_header_bytes, N):
    """If the stream is exactly N records (k prefix bytes + one complete packet each), the framer yields exactly
    those N packets, byte-identical and in order, and nothing else."""
    T = binary_data
    k = skip_header_bytes
    out = list(ccsds_generator(binary_data, skip_header_bytes=skip_header_bytes))
    assert not (len(out) < N), "not_fewer"
    assert not (len(out) > N), "not_more"
    assert len(out) == N, "count"
    assert forall(lambda i: out[i] == sl(T, fb(T, k, i) + k, fb(T, k, i + 1)), 0, N), "items"
    return out


def c13_reframe(data, version_number, type, secondary_header_flag, apid, sequence_flags, sequence_count):
    """C13: the framer re-frames a constructed packet as that single packet (over the two CONTRACTS)."""
    pkt = create_ccsds_packet(data, version_number=version_number, type=type,
                              secondary_header_flag=secondary_header_flag, apid=apid,
                              sequence_flags=sequence_flags, sequence_count=sequence_count)
    T = bytes(pkt)
    use(bits_prefix(T, 6, 32, 16))
    use(fb_zero(T, 0))
    use(fb_step(T, 0, 0))
    use(fb_step(T, 0, 1))
    use(bits_range(T, 8 * fb(T, 0, 1) + 32, 16))
    assert be(T[0:6]) % 2**16 == len(data) - 1, "length_field"
    assert fb(T, 0, 1) == len(T), "one_record"
    out = list(ccsds_generator(pkt))
    assert len(out) >= 1, "at_least_one"
    assert len(out) <= 1, "at_most_one"
    assert out[0] == T, "same_bytes"
    return out


# ---- C04: what the float constructor stores (the REAL __init__ body is executed, not a contract) ----------------------
def c04_float_ctor(size_in_bits, encoding, byte_order, data):
    """C04: for every (encoding, size, byte order) the constructor accepts, the parsing function it stores decodes four /
    size/8 bytes as the MIL-STD-1750A value, or as struct.unpack (E2) with exactly the format character of the size and
    the byte-order mark of the declared byte order."""
    enc = FloatDataEncoding(size_in_bits, encoding=encoding, byte_order=byte_order)
    assert enc.size_in_bits == size_in_bits, "size_kept"
    assert enc.byte_order == byte_order, "byte_order_kept"
    if encoding == 'MILSTD_1750A' or encoding == 'MIL-1750A':
        assert enc.encoding == 'MILSTD_1750A', "encoding_mil"
        assert size_in_bits == 32, "mil_is_32_bits"
        got = enc.parse_func(data)
        if byte_order == 'leastSignificantByteFirst':
            assert got == mil1750a(le(data)), "mil_little_endian"
        else:
            assert got == mil1750a(be(data)), "mil_big_endian"
    else:
        assert enc.encoding != 'MILSTD_1750A', "encoding_ieee"
        mark = '<' if byte_order == 'leastSignificantByteFirst' else '>'
        if size_in_bits == 16:
            assert enc._struct_format == mark + 'e', "format_16"
        elif size_in_bits == 32:
            assert enc._struct_format == mark + 'f', "format_32"
        else:
            assert size_in_bits == 64, "ieee_size"
            assert enc._struct_format == mark + 'd', "format_64"
        got = enc.parse_func(data)
        if size_in_bits == 16:
            assert feq(got, ieee(mark + 'e', data)), "ieee_value_16"
        elif size_in_bits == 32:
            assert feq(got, ieee(mark + 'f', data)), "ieee_value_32"
        else:
            assert feq(got, ieee(mark + 'd', data)), "ieee_value_64"
    return enc


def c04_int_ctor(size_in_bits, encoding, byte_order, packet):
    """C04: an integer encoding built by the REAL constructor from (size, encoding, byte order) decodes a field as the
    value those DECLARED arguments prescribe - the constructor keeps them as given (no normalisation that changes the
    meaning) and attaches no calibrators of its own."""
    p0 = packet.raw_data.pos
    enc = IntegerDataEncoding(size_in_bits, encoding, byte_order=byte_order)
    assert enc.size_in_bits == size_in_bits, "size_kept"
    assert enc.encoding == encoding, "encoding_kept"
    assert enc.byte_order == byte_order, "byte_order_kept"
    assert enc.default_calibrator is None and enc.context_calibrators is None, "no_calibrators"
    v = enc._get_raw_value(packet)
    assert packet.raw_data.pos == p0 + size_in_bits, "cursor"
    if byte_order != 'leastSignificantByteFirst' or size_in_bits % 8 == 0:
        assert v == int_decode(bits(packet.raw_data, p0, size_in_bits), size_in_bits, encoding, byte_order), \
            "decodes_as_declared"
    return v


def c07_binary_ctor(fixed_size_in_bits, packet):
    """C07: a binary encoding built by the REAL constructor with a fixed size yields exactly the next fixed_size_in_bits
    bits of the packet, left-padded to whole bytes, and advances the cursor by that size."""
    p0 = packet.raw_data.pos
    enc = BinaryDataEncoding(fixed_size_in_bits=fixed_size_in_bits)
    assert enc.fixed_size_in_bits == fixed_size_in_bits, "size_kept"
    assert enc.size_reference_parameter is None and enc.size_discrete_lookup_list is None and \
        enc.linear_adjuster is None, "nothing_else_set"
    v = enc.parse_value(packet)
    assert packet.raw_data.pos == p0 + fixed_size_in_bits, "cursor"
    assert len(v) == ceil8(fixed_size_in_bits), "length"
    assert be(v) == bits(packet.raw_data, p0, fixed_size_in_bits), "field_bits"
    return v


# ---- C09 / C15: write -> load round trips (bounded: lxml is outside the prover's reach, E6) ----------------------------
def c09_roundtrip(definition, raws):
    import io
    import lxml.etree as ET
    from space_packet_parser.xtce.definitions import XtcePacketDefinition
    from specs.refsem import canon_definition, same_definition, ref_parse_outcome

    def W(d):
        return ET.tostring(d.to_xml_tree(), pretty_print=True, xml_declaration=True, encoding='utf-8')

    def L(text, like):
        return XtcePacketDefinition.from_xtce(io.BytesIO(text), xtce_ns_prefix=like.xtce_ns_prefix,
                                              root_container_name=like.root_container_name)

    def items(outcome):
        kind, val = outcome
        if kind == 'error':
            return kind, val
        return kind, [(k, type(v).__name__, repr(v), repr(v.raw_value)) for k, v in val.items()], val.pos
    before = canon_definition(definition)
    g1 = W(definition)
    assert W(definition) == g1, "C15_deterministic"
    assert canon_definition(definition) == before, "C15_write_does_not_alter"
    # ... nor does what is written depend on which other definitions were written before in this process
    import copy
    other = copy.deepcopy(definition)
    other.space_system_name = 'ANOTHER_SPACE_SYSTEM'
    W(other)
    assert W(definition) == g1, "C15_independent_of_other_writes"
    tree = ET.fromstring(g1)
    uri = definition.xtce_schema_uri
    assert all((not isinstance(e.tag, str)) or (e.tag.startswith('{%s}' % uri) if uri else not e.tag.startswith('{'))
               for e in tree.iter()), "C15_namespace"
    d2 = L(g1, definition)
    assert same_definition(d2, definition), "C09_same_meaning"
    for raw in raws:
        assert items(ref_parse_outcome(d2, raw)) == items(ref_parse_outcome(definition, raw)), "C09_same_decoding"
    g2 = W(d2)
    g3 = W(L(g2, definition))
    assert g2 == g3, "C15_stable"
    return g1
