"""Ghost client programs: lemmas over contracts, written as ordinary Python.

The prover executes them symbolically with every call into the repository replaced by the callee's CONTRACT (never its
body), and every `assert cond, "label"` becomes a named obligation `ghost.<fn>:assert:<label>`.  The native harness
runs the same text against the real code.  They contain no repository logic of their own."""
from space_packet_parser.packets import RawPacketData, create_ccsds_packet
from specs.oracles import *  # noqa: F401,F403  (spec functions may be used in assertions)


def c13_roundtrip(data, version_number, type, secondary_header_flag, apid, sequence_flags, sequence_count):
    """C13: accessors applied to a constructed packet return exactly the values given."""
    pkt = create_ccsds_packet(data, version_number=version_number, type=type,
                              secondary_header_flag=secondary_header_flag, apid=apid,
                              sequence_flags=sequence_flags, sequence_count=sequence_count)
    # calculation steps: the 48-bit header word divided at each field boundary (each is one division by a constant)
    H = be(pkt[0:6])
    assert H // 2**45 == version_number, "calc_div45"
    assert H // 2**44 == version_number * 2 + type, "calc_div44"
    assert H // 2**43 == version_number * 4 + type * 2 + secondary_header_flag, "calc_div43"
    assert H // 2**32 == (version_number * 4 + type * 2 + secondary_header_flag) * 2**11 + apid, "calc_div32"
    assert H // 2**30 == ((version_number * 4 + type * 2 + secondary_header_flag) * 2**11 + apid) * 4 + sequence_flags, \
        "calc_div30"
    assert H // 2**16 == (((version_number * 4 + type * 2 + secondary_header_flag) * 2**11 + apid) * 4
                          + sequence_flags) * 2**14 + sequence_count, "calc_div16"
    assert pkt.version_number == version_number, "version_number"
    assert pkt.type == type, "type"
    assert pkt.secondary_header_flag == secondary_header_flag, "secondary_header_flag"
    assert pkt.apid == apid, "apid"
    assert pkt.sequence_flags == sequence_flags, "sequence_flags"
    assert pkt.sequence_count == sequence_count, "sequence_count"
    assert pkt.data_length == len(data) - 1, "data_length"
    hv = pkt.header_values
    assert hv == (version_number, type, secondary_header_flag, apid, sequence_flags, sequence_count, len(data) - 1), \
        "header_values"
    assert len(pkt) == 6 + len(data), "total_length"
    return pkt
