/-
  Arithmetic axioms of /verif/pyvc/theory.py, stated about the concrete definitions
      shr x a = x / 2^a      low x a = x % 2^a      pow2 a = 2^a
  over the natural numbers (every value the contracts apply them to is non-negative: `be b`, field values).
  Checked by `lean lean/PyVC.lean` (Lean 4.33 + Mathlib).  The byte-sequence axioms (sl / cat / be / tb ...) are not
  proved here; they are conformance-tested against CPython by pyvc/conformance.py on every build of the engine.
-/
import Mathlib

namespace PyVC

def shr (x a : Nat) : Nat := x / 2 ^ a
def low (x a : Nat) : Nat := x % 2 ^ a

theorem shr_shr (x a b : Nat) : shr (shr x a) b = shr x (a + b) := by
  unfold shr
  rw [Nat.div_div_eq_div_mul, pow_add]

theorem shr_low_ge (x a b : Nat) (h : b ≤ a) : shr (low x a) b = low (shr x b) (a - b) := by
  unfold shr low
  obtain ⟨c, rfl⟩ := Nat.exists_eq_add_of_le h
  rw [Nat.add_sub_cancel_left, pow_add]
  exact Nat.mod_mul_right_div_self x (2 ^ b) (2 ^ c)

theorem shr_low_lt (x a b : Nat) (h : a < b) : shr (low x a) b = 0 := by
  unfold shr low
  apply Nat.div_eq_of_lt
  calc x % 2 ^ a < 2 ^ a := Nat.mod_lt _ (by positivity)
    _ ≤ 2 ^ b := Nat.pow_le_pow_right (by norm_num) (le_of_lt h)

theorem low_low_ge (x a b : Nat) (h : b ≤ a) : low (low x a) b = low x b := by
  unfold low
  exact Nat.mod_mod_of_dvd x (pow_dvd_pow 2 h)

theorem low_low_lt (x a b : Nat) (h : a < b) : low (low x a) b = low x a := by
  unfold low
  apply Nat.mod_eq_of_lt
  calc x % 2 ^ a < 2 ^ a := Nat.mod_lt _ (by positivity)
    _ ≤ 2 ^ b := Nat.pow_le_pow_right (by norm_num) (le_of_lt h)

theorem shr_zero (x : Nat) : shr x 0 = x := by simp [shr]
theorem low_zero (x : Nat) : low x 0 = 0 := by simp [low, Nat.mod_one]

theorem low_range (x a : Nat) : low x a < 2 ^ a := by
  unfold low; exact Nat.mod_lt _ (by positivity)

theorem low_id (x a : Nat) (h : x < 2 ^ a) : low x a = x := by
  unfold low; exact Nat.mod_eq_of_lt h

theorem shr_le (x a : Nat) : shr x a ≤ x := by
  unfold shr; exact Nat.div_le_self x (2 ^ a)

theorem pow2_pos (a : Nat) : 1 ≤ 2 ^ a := Nat.one_le_two_pow
theorem pow2_succ (a : Nat) : 2 ^ (a + 1) = 2 * 2 ^ a := by ring
theorem pow2_mono (a b : Nat) (h : a ≤ b) : 2 ^ a ≤ 2 ^ b := Nat.pow_le_pow_right (by norm_num) h

theorem split (x a : Nat) : x = shr x a * 2 ^ a + low x a := by
  unfold shr low; exact (Nat.div_add_mod' x (2 ^ a)).symm

/-- `x &&& (2^n - 1) = x % 2^n`: how the interpreter reads `value & (2 ** nbits - 1)` -/
theorem and_mask (x n : Nat) : x &&& (2 ^ n - 1) = low x n := by
  unfold low; exact Nat.and_two_pow_sub_one_eq_mod x n

/-- `(2^i * a) ||| b = 2^i * a + b` for `b < 2^i`: the ground lemma instantiated for every `|` in the header packing -/
theorem or_as_add (a b i : Nat) (h : b < 2 ^ i) : (2 ^ i * a) ||| b = 2 ^ i * a + b :=
  (Nat.two_pow_add_eq_or_of_lt h a).symm

/-- top bit of a (k+1)-bit value -/
theorem top_bit_set (x k : Nat) (h1 : 2 ^ k ≤ x) (h2 : x < 2 ^ (k + 1)) : low (shr x k) 1 = 1 := by
  unfold low shr
  have hq : x / 2 ^ k = 1 := by
    apply Nat.div_eq_of_lt_le
    · simpa using h1
    · simpa [pow_succ, mul_comm] using h2
  simp [hq]

theorem top_bit_clear (x k : Nat) (h : x < 2 ^ k) : low (shr x k) 1 = 0 := by
  unfold low shr
  simp [Nat.div_eq_of_lt h]

end PyVC
